// C21 HTTP request parsing does not depend on how the input is segmented.
//
// Domain : request heads built from a small grammar (leading empty lines / garbage, method, delimiters,
//          the four target forms, versions, line ends, field lines, obs-fold, terminators, trailing
//          body or pipelined bytes) + a byte mutation layer, times a vector of cut positions
//          (single cut, k-way, drip = every byte, cuts next to CR/LF), times
//          relaxed_header_parser in {off, on, warn}, request_header_max_size (default or placed next to
//          the size of the line / head / input), preserve-parsed-bytes on/off.
// Driver : exactly ConnStateData::parseHttpRequest()/parseRequests(): one parser object per message,
//              inBuf.append(chunk); ok = hp->parse(inBuf); inBuf = hp->remaining();
//          repeated for every (non-empty) chunk until the parser stops needing data.  parse() is never
//          called with an empty buffer (parseRequests() loops on !inBuf.isEmpty()).
// Oracle : differential.  outcome(incremental) == outcome(one-shot on the whole string), where
//          outcome = need-more | accepted(method, target, version, mime block, consumed bytes[, parsed()])
//                  | rejected(parseStatusCode).  For rejections only the status is compared.
// Preconditions (from callers / configuration, not from the parser):
//   * chunks are non-empty (a zero-byte read is EOF, not data);
//   * request_header_max_size >= 40: a smaller limit cannot even hold the longest method the parser
//     allows (32 bytes) plus its delimiter, and then "who is to blame for the unfinished line" is decided
//     on a buffer that ends inside the method; no such configuration is usable for HTTP at all.
#include "squid.h"
#include "http/one/RequestParser.h"
#include "http/RequestMethod.h"
#include "sbuf/SBuf.h"
#include "SquidConfig.h"

#include "verif_pbt.h"

namespace {

struct Case {
    int relaxed = 1;          // Config.onoff.relaxed_header_parser: 0 off, 1 on, -1 warn
    long long limit = 65536;  // Config.maxRequestHeaderSize
    bool preserve = false;    // RequestParser(preserveParsed)
    std::string input;
    std::vector<size_t> cuts; // strictly increasing, each in (0, input.size())
};

std::string cutsToText(const std::vector<size_t> &cuts)
{
    std::string s;
    for (size_t i = 0; i < cuts.size(); ++i) {
        if (i) s += ',';
        s += std::to_string(cuts[i]);
    }
    return s;
}

std::vector<size_t> normalizeCuts(std::vector<size_t> cuts, size_t n)
{
    std::sort(cuts.begin(), cuts.end());
    cuts.erase(std::unique(cuts.begin(), cuts.end()), cuts.end());
    std::vector<size_t> r;
    for (size_t p : cuts)
        if (p > 0 && p < n) r.push_back(p);
    return r;
}

std::string show(const Case &c)
{
    return vp::Writer().i("relaxed", c.relaxed).i("limit", c.limit).i("preserve", c.preserve)
        .s("input", c.input).s("cuts", cutsToText(c.cuts)).str();
}

Case parse(const std::string &text)
{
    vp::Reader r(text);
    Case c;
    c.relaxed = static_cast<int>(r.i("relaxed"));
    c.limit = r.i("limit");
    c.preserve = r.i("preserve") != 0;
    c.input = r.s("input");
    std::vector<size_t> cuts;
    const std::string cs = r.s("cuts");
    size_t i = 0;
    while (i < cs.size()) {
        size_t j = i;
        while (j < cs.size() && cs[j] != ',') ++j;
        if (j > i) cuts.push_back(static_cast<size_t>(strtoull(cs.substr(i, j - i).c_str(), nullptr, 10)));
        i = j + 1;
    }
    c.cuts = normalizeCuts(cuts, c.input.size());
    return c;
}

// ------------------------------------------------------------------ generator

using Strs = std::vector<std::string>;

std::string pick(const Strs &v) { return v[*vp::range<size_t>(0, v.size() - 1)]; }
bool chance(int percent) { return *vp::range<int>(0, 99) < percent; }

const char kInterestingRaw[] = "\r\n \t\v\f\0:/.?#%*1Hx\x7f\x80\xff";
const std::string kInteresting(kInterestingRaw, sizeof(kInterestingRaw) - 1);

char interestingByte()
{
    if (chance(70)) return kInteresting[*vp::range<size_t>(0, kInteresting.size() - 1)];
    return static_cast<char>(*vp::range<int>(0, 255));
}

std::string genLeading()
{
    if (chance(62)) return std::string();
    static const Strs pieces = {"\r\n", "\r\n", "\r\n", "\n", "\n", "\r", "\r\r\n", " ", "\t", std::string("\0", 1), "\r\n\r\n", "x", "\n\r\n"};
    std::string s;
    const int n = *vp::range<int>(1, 3);
    for (int i = 0; i < n; ++i) s += pick(pieces);
    return s;
}

std::string genMethod()
{
    const int k = *vp::range<int>(0, 19);
    if (k < 15) {
        static const Strs known = {"GET", "GET", "GET", "POST", "HEAD", "PUT", "CONNECT", "OPTIONS", "DELETE", "TRACE", "PRI", "PURGE", "get", "Get", "PROPFIND"};
        return pick(known);
    }
    if (k < 17) {
        static const std::string tchar = "!#$%&'*+-.^_`|~0123456789abcXYZ";
        std::string s;
        const int n = *vp::range<int>(1, 8);
        for (int i = 0; i < n; ++i) s += tchar[*vp::range<size_t>(0, tchar.size() - 1)];
        return s;
    }
    if (k < 19) return std::string(static_cast<size_t>(*vp::range<int>(30, 34)), 'M');
    return std::string();
}

std::string genDelim()
{
    if (chance(88)) return " ";
    static const Strs d = {"  ", "\t", "\v", "\f", "\r", " \t", "", " \r", "   "};
    return pick(d);
}

std::string genTarget()
{
    const int k = *vp::range<int>(0, 19);
    if (k < 13) {
        static const Strs t = {"/", "/", "/index.html", "/a/b?c=d", "*", "http://example.com/", "http://example.com:80/p?q#f",
                               "example.com:443", "/%41%zz", "//", "/1.1", "/HTTP/1.1", "/x/1", "http://[::1]:8080/"};
        return pick(t);
    }
    if (k < 17) {
        static const Strs t = {"/a b", "/\xc3\xa9", "/{x}|y", "/\"q\"", "/a\tb", "/x\x01y", "", "/a\rb", "/a\\b", "/<>", std::string("/a\0b", 4), "/ HTTP/1.0 ", "/^`"};
        return pick(t);
    }
    std::string s = "/";
    const int n = *vp::range<int>(1, 120);
    for (int i = 0; i < n; ++i) s += static_cast<char>('a' + (i % 26));
    return s;
}

std::string genVersion(bool &none)
{
    none = false;
    const int k = *vp::range<int>(0, 19);
    if (k < 12) return "HTTP/1.1";
    if (k < 15) return "HTTP/1.0";
    if (k < 17) { none = true; return std::string(); }
    static const Strs v = {"HTTP/0.9", "HTTP/2.0", "HTTP/1.10", "HTTP/11.1", "http/1.1", "HTTP/1.", "HTTP/1", "HTTP/", "HTTP/1.1x", "ICY", "HTTP/1,1", "HTTP/.1", "HTTP/9.9", "HTTP/0.0"};
    return pick(v);
}

std::string genEol()
{
    if (chance(84)) return "\r\n";
    static const Strs e = {"\n", "\n", "\r\r\n", "\r", "\n\r", "", "\r\r\r\n", " \r\n"};
    return pick(e);
}

std::string genField()
{
    const int k = *vp::range<int>(0, 19);
    if (k < 10) {
        static const Strs f = {"Host: example.com", "Content-Length: 5", "X-A: b", "Accept: */*", "Connection: keep-alive", "Transfer-Encoding: chunked"};
        return pick(f);
    }
    if (k < 17) {
        static const Strs f = {" folded", "\tfolded", "NoColon", "Name : v", std::string("A:\0b", 4), ":", "X:\t y ", "", "\rX: y", "X: a\rb", "\x0bX: y", "X: \xff"};
        return pick(f);
    }
    std::string s = "X-Long: ";
    const int n = *vp::range<int>(1, 90);
    for (int i = 0; i < n; ++i) s += static_cast<char>('0' + (i % 10));
    return s;
}

std::string genTrailing()
{
    if (chance(45)) return std::string();
    static const Strs t = {"body", "GET / HTTP/1.1\r\n\r\n", "\r\n", "\n", "\r", "POST /x HTTP/1.1\r\nContent-Length: 0\r\n\r\n", std::string("\0\0", 2), "HTTP/1.1 200 OK\r\n\r\n", " "};
    return pick(t);
}

void mutate(std::string &s)
{
    const int n = *vp::range<int>(1, 2);
    for (int m = 0; m < n; ++m) {
        const int kind = *vp::range<int>(0, 9);
        if (s.empty()) { s += interestingByte(); continue; }
        const size_t pos = *vp::range<size_t>(0, s.size() - 1);
        if (kind < 4) s[pos] = interestingByte();                              // substitute
        else if (kind < 7) s.insert(s.begin() + static_cast<long>(pos), interestingByte()); // insert
        else if (kind < 8) s.erase(pos, 1);                                    // delete
        else if (kind < 9) {                                                   // duplicate a short range
            const size_t len = std::min<size_t>(s.size() - pos, *vp::range<size_t>(1, 12));
            s.insert(pos, s.substr(pos, len));
        } else s.resize(pos);                                                  // truncate
    }
}

std::vector<size_t> genCuts(const std::string &in, bool big)
{
    const size_t n = in.size();
    std::vector<size_t> cuts;
    if (n < 2) return cuts;
    const int kind = *vp::range<int>(0, 19);
    if (kind < 1) return cuts; // one chunk: trivially equal, kept as a sanity class
    if (kind < 7) {
        cuts.push_back(*vp::range<size_t>(1, n - 1));
    } else if (kind < 11 && !big && n <= 600) {
        for (size_t p = 1; p < n; ++p) cuts.push_back(p); // drip
    } else if (kind < 15) {
        const int k = *vp::range<int>(2, 6);
        for (int i = 0; i < k; ++i) cuts.push_back(*vp::range<size_t>(1, n - 1));
    } else {
        // next to CR/LF bytes
        std::vector<size_t> cand;
        for (size_t p = 1; p < n; ++p)
            if (in[p - 1] == '\r' || in[p - 1] == '\n' || in[p] == '\r' || in[p] == '\n') cand.push_back(p);
        if (cand.empty()) cand.push_back(*vp::range<size_t>(1, n - 1));
        const int k = *vp::range<int>(1, 3);
        for (int i = 0; i < k; ++i) cuts.push_back(cand[*vp::range<size_t>(0, cand.size() - 1)]);
    }
    return normalizeCuts(cuts, n);
}

rc::Gen<Case> gen()
{
    return rc::gen::exec([]() {
        Case c;
        c.relaxed = *rc::gen::weightedElement<int>({{5, 1}, {4, 0}, {1, -1}});
        c.preserve = chance(25);

        const bool big = *vp::range<int>(0, 1999) == 0; // rare: sizes around the 64 KB request-target and header limits
        bool hugeTarget = false;
        std::string s = genLeading();
        const size_t lineStart = s.size();
        s += genMethod();
        s += genDelim();
        if (big && chance(50)) {
            s += "/";
            s += std::string(static_cast<size_t>(65536 + *vp::range<int>(-3, 2)), 'u'); // String::RawSizeMaxXXX()
            hugeTarget = true;
        } else
            s += genTarget();
        bool noVersion = false;
        const std::string version = genVersion(noVersion);
        if (!noVersion) { s += genDelim(); s += version; }
        s += genEol();
        const size_t lineLen = s.size() - lineStart;
        const bool truncatedHead = chance(12);
        if (!truncatedHead || chance(50)) {
            const int nf = *rc::gen::weightedElement<int>({{3, 0}, {3, 1}, {3, 2}, {1, 4}});
            for (int i = 0; i < nf; ++i) { s += genField(); s += genEol(); }
            if (big && chance(60)) {
                // pad the head to the neighbourhood of the default 64 KB limit
                const size_t want = 65536 + static_cast<size_t>(*vp::range<int>(-40, 8));
                if (s.size() + 12 < want) { s += "X-Pad: "; s += std::string(want - s.size() - 9, 'p'); s += "\r\n"; }
            }
        }
        if (!truncatedHead) s += genEol();
        const size_t headLen = s.size();
        s += genTrailing();

        if (chance(25)) mutate(s);
        if (s.empty()) s = "\r";
        c.input = s;

        if (big || chance(60)) c.limit = hugeTarget ? 200000 : (big && chance(30) ? 100000 : 65536);
        else {
            const int k = *vp::range<int>(0, 6);
            const long long d = *vp::range<int>(-3, 3);
            if (k == 0) c.limit = static_cast<long long>(lineLen) + d;
            else if (k == 1) c.limit = static_cast<long long>(headLen - lineStart) + d;
            else if (k == 2) c.limit = static_cast<long long>(headLen) + d;
            else if (k == 3) c.limit = static_cast<long long>(s.size()) + d;
            else if (k == 4) c.limit = static_cast<long long>(lineLen) + static_cast<long long>(lineStart) + d;
            else c.limit = *rc::gen::element<long long>(40, 48, 64, 100, 128, 200);
        }
        if (c.limit < 40) c.limit = 40;
        c.cuts = genCuts(c.input, big);
        return c;
    });
}

// ------------------------------------------------------------------ driving the real parser

struct Out {
    int kind = 0; // 0 need-more, 1 accepted, 2 rejected
    int status = 0;
    int methodId = 0;
    std::string method, uri, proto, mime, parsed;
    size_t consumed = 0;
    size_t deliveredAtStop = 0;
    bool fullBufferNeedMore = false;
};

std::string str(const SBuf &b) { return std::string(b.rawContent(), b.length()); }

Out drive(const Case &c, const std::vector<size_t> &cuts)
{
    Out o;
    Http1::RequestParserPointer hp = new Http1::RequestParser(c.preserve);
    SBuf inBuf;
    size_t pos = 0;
    for (size_t i = 0; i <= cuts.size(); ++i) {
        const size_t end = i < cuts.size() ? cuts[i] : c.input.size();
        if (end <= pos) continue; // never deliver an empty chunk
        inBuf.append(c.input.data() + pos, end - pos);
        pos = end;
        // ConnStateData::parseHttpRequest()
        const bool ok = hp->parse(inBuf);
        inBuf = hp->remaining();
        if (hp->needsMoreData()) {
            if (inBuf.length() >= Config.maxRequestHeaderSize) o.fullBufferNeedMore = true;
            continue;
        }
        o.kind = ok ? 1 : 2;
        break;
    }
    o.deliveredAtStop = pos;
    o.status = static_cast<int>(hp->parseStatusCode);
    o.consumed = pos - inBuf.length();
    if (o.kind == 1) {
        o.methodId = static_cast<int>(hp->method().id());
        o.method = str(hp->method().image());
        o.uri = str(hp->requestUri());
        const auto &v = hp->messageProtocol();
        o.proto = std::to_string(static_cast<int>(v.protocol)) + "/" + std::to_string(v.major) + "." + std::to_string(v.minor);
        o.mime = str(hp->mimeHeader());
    }
    if (c.preserve) o.parsed = str(hp->parsed());
    return o;
}

const char *kindName(int k) { return k == 0 ? "need-more" : k == 1 ? "accepted" : "rejected"; }

std::string describe(const Out &o)
{
    std::string s = kindName(o.kind);
    if (o.kind == 2) s += " status=" + std::to_string(o.status);
    if (o.kind == 1)
        s += " method=" + vp::esc(o.method) + " uri=" + vp::esc(o.uri.substr(0, 80)) + " proto=" + o.proto + " mime=" + vp::esc(o.mime.substr(0, 80)) +
             " consumed=" + std::to_string(o.consumed);
    return s;
}

/// empty when equal, otherwise a stable classification of the difference
std::string difference(const Case &c, const Out &one, const Out &inc)
{
    if (one.kind != inc.kind) {
        std::string s = std::string("oneshot-") + kindName(one.kind) + (one.kind == 2 ? "-" + std::to_string(one.status) : "") +
                        "/incremental-" + kindName(inc.kind) + (inc.kind == 2 ? "-" + std::to_string(inc.status) : "");
        return s;
    }
    if (one.kind == 2) {
        if (one.status != inc.status)
            return "rejected-status-differs:oneshot-" + std::to_string(one.status) + "/incremental-" + std::to_string(inc.status);
        return std::string();
    }
    if (one.kind == 0) return std::string();
    if (one.methodId != inc.methodId || one.method != inc.method) return "accepted-method-differs";
    if (one.uri != inc.uri) return "accepted-target-differs";
    if (one.proto != inc.proto) return "accepted-version-differs";
    if (one.mime != inc.mime) return "accepted-mime-block-differs";
    if (one.consumed != inc.consumed) return "accepted-consumed-length-differs";
    if (c.preserve && one.parsed != inc.parsed) return "accepted-parsed-bytes-differ";
    return std::string();
}

const char *const kSigLoneCr = "c21:relaxed:leading-empty-line-CR-split-from-LF:incremental-400";
const char *const kSigGaveUp = "c21:request-line-reaches-header-limit-before-its-LF-arrives:incremental-414";

bool isLoneCrCut(const std::string &in, size_t g, size_t p) { return p < g && in[p - 1] == '\r' && in[p] == '\n'; }

/// Compares the one-shot outcome with the outcome of one delivery and classifies a difference.
/// The two defects already on record (DESIGN.md section 6 items 1 and 7) get their own narrow signatures,
/// and only when the same delivery *without the offending cuts* is clean; whatever else that reduced
/// delivery shows is reported under its own signature, so a recorded defect never hides a new one.
vp::Verdict judge(const Case &c, const Out &one, const Out &inc, const std::vector<size_t> &cuts, size_t g, size_t lineEnd)
{
    const std::string diff = difference(c, one, inc);
    if (diff.empty()) return vp::pass();
    const std::string &in = c.input;
    const std::string detail = "oneshot: " + describe(one) + " | incremental(" + cutsToText(cuts) + "): " + describe(inc);

    // Item 1: in relaxed mode a leading empty line whose CR and LF arrive in different reads turns into a 400.
    // Class: relaxed/warn mode, a cut between the CR and the LF of a leading empty line, incremental answer 400.
    if (c.relaxed != 0 && inc.kind == 2 && inc.status == 400) {
        std::vector<size_t> without;
        for (size_t p : cuts)
            if (!isLoneCrCut(in, g, p)) without.push_back(p);
        if (without.size() != cuts.size()) {
            const vp::Verdict rest = judge(c, one, drive(c, without), without, g, lineEnd);
            if (rest.ok || rest.sig == kSigGaveUp)
                return vp::fail(kSigLoneCr, detail);
            return rest;
        }
    }

    // Item 7: a request line that does not fit request_header_max_size is given up (414) when a read
    // leaves >= limit bytes buffered before the LF of the line has arrived,
    // but is parsed as if there were no limit when its LF is already buffered (then the outcome is whatever
    // the full line gives: 431 from the header stage, 400, or an accepted HTTP/0.9 request).
    // Class: the input contains the LF of the request line, some chunk ends at or before that LF with
    // >= limit unconsumed bytes, incremental answer 414.
    if (lineEnd < in.size() && inc.kind == 2 && inc.status == 414) {
        const size_t skipped = c.relaxed ? g : 0;
        const size_t lim = static_cast<size_t>(c.limit);
        std::vector<size_t> without;
        for (size_t p : cuts)
            if (!(p <= lineEnd && p >= skipped && p - skipped >= lim)) without.push_back(p);
        if (without.size() != cuts.size()) {
            const vp::Verdict rest = judge(c, one, drive(c, without), without, g, lineEnd);
            if (rest.ok) return vp::fail(kSigGaveUp, detail);
            return rest;
        }
    }

    return vp::fail("c21:" + diff, detail);
}

vp::Verdict check(const Case &c, vp::Ctx &ctx)
{
    // every global the parsers read
    Config.onoff.relaxed_header_parser = c.relaxed;
    Config.maxRequestHeaderSize = static_cast<size_t>(c.limit);
    Config.maxReplyHeaderSize = 65536;

    if (c.input.empty()) { ctx.excluded("empty input: parse() is never called without data"); return vp::pass(); }
    if (c.limit < 40) { ctx.excluded("request_header_max_size below 40 bytes"); return vp::pass(); }
    const std::vector<size_t> cuts = normalizeCuts(c.cuts, c.input.size());

    const Out one = drive(c, std::vector<size_t>());
    const Out inc = drive(c, cuts);

    // ---- classification of the case (from the input and the cut vector only)
    const std::string &in = c.input;
    const size_t n = in.size();
    size_t g = 0; // leading run of empty lines, as RFC 9112 section 2.2 describes them
    while (g < n) {
        if (in[g] == '\n') ++g;
        else if (in[g] == '\r' && g + 1 < n && in[g + 1] == '\n') g += 2;
        else break;
    }
    // a CR that is the first half of a leading empty line... including one whose LF is the next chunk's first byte
    size_t lineEnd = in.find('\n', g);
    if (lineEnd == std::string::npos) lineEnd = n;
    bool cutInLine = false, cutInLeading = false, cutInTerminator = false, loneCrCut = false;
    for (size_t p : cuts) {
        if (p > g && p <= lineEnd) cutInLine = true;
        if (p < g) cutInLeading = true;
        if (p < g && in[p - 1] == '\r' && in[p] == '\n') loneCrCut = true;
        if (one.kind == 1 && one.consumed >= 2 && p > lineEnd && p + 3 >= one.consumed && p < one.consumed) cutInTerminator = true;
    }
    ctx.label(c.relaxed ? (c.relaxed < 0 ? "mode-warn" : "mode-relaxed") : "mode-strict");
    ctx.label(std::string("oneshot-") + kindName(one.kind));
    if (one.kind == 2) ctx.label("oneshot-rejected-" + std::to_string(one.status));
    if (cuts.empty()) ctx.label("no-cut");
    if (cutInLine) ctx.label("cut-in-request-line");
    if (cutInLeading) ctx.label("cut-in-leading-empty-lines");
    if (cutInTerminator) ctx.label("cut-in-header-terminator");
    if (loneCrCut) ctx.label("cut-between-leading-CR-and-LF");
    if (c.limit != 65536) ctx.label("small-limit");
    if (n > 20000) ctx.label("big-input");
    if (c.preserve) ctx.label("preserve-parsed");
    if (one.kind == 1 && one.proto.find("/0.9") != std::string::npos) ctx.label("accepted-http09");
    if (one.fullBufferNeedMore || inc.fullBufferNeedMore) ctx.label("need-more-with-buffer-at-limit");
    if (cutInLine || cutInLeading || cutInTerminator) ctx.nontrivial();

    // ---- documented accounting of parsed(): the consumed prefix of the stream
    if (c.preserve) {
        if (one.kind == 1 && one.parsed != in.substr(0, one.consumed))
            return vp::fail("c21:parsed-bytes-not-the-consumed-prefix:oneshot", "parsed=" + vp::esc(one.parsed.substr(0, 120)));
        if (inc.kind == 1 && inc.parsed != in.substr(0, inc.consumed))
            return vp::fail("c21:parsed-bytes-not-the-consumed-prefix:incremental", "parsed=" + vp::esc(inc.parsed.substr(0, 120)));
    }

    return judge(c, one, inc, cuts, g, lineEnd);
}

#ifdef VP_FUZZ
Case fuzzDecode(FuzzedDataProvider &fdp)
{
    Case c;
    static const int modes[] = {1, 0, -1};
    c.relaxed = modes[fdp.ConsumeIntegralInRange<int>(0, 2)];
    c.preserve = fdp.ConsumeBool();
    const int lk = fdp.ConsumeIntegralInRange<int>(0, 7);
    const int ld = fdp.ConsumeIntegralInRange<int>(0, 40);
    const int nc = fdp.ConsumeIntegralInRange<int>(0, 6);
    std::vector<size_t> cuts;
    bool drip = false;
    if (nc == 6) drip = true;
    else
        for (int i = 0; i < nc; ++i) cuts.push_back(fdp.ConsumeIntegralInRange<size_t>(1, 300));
    c.input = fdp.ConsumeRemainingBytesAsString();
    if (drip)
        for (size_t p = 1; p < c.input.size(); ++p) cuts.push_back(p);
    c.cuts = normalizeCuts(cuts, c.input.size());
    if (lk < 4) c.limit = 65536;
    else if (lk < 6) c.limit = 40 + ld * 4;
    else c.limit = std::max<long long>(40, static_cast<long long>(c.input.size()) - 20 + ld);
    return c;
}
#else
std::function<Case(FuzzedDataProvider &)> fuzzDecode = nullptr;
#endif

void registerAll()
{
    vp::add<Case>("request_segmentation", gen(), check, show, parse, 1.0, fuzzDecode);
}

} // namespace

VP_MAIN(registerAll)
