// C44 Access lists decide by first match, even when checks go asynchronous.
// Domain : random access lists (1..6 "allow|deny [!]name ..." rules built by the real aclParseAccessLine) over
//          synthetic leaf ACLs ("acl aN vpsynth N", registered with Acl::RegisterMaker) and all-of/any-of groups
//          (real Acl::AllOf/Acl::AnyOf, several lines, nested), evaluated by the real ACLChecklist:
//          nonBlockingCheck() with 1..3 concurrent checks whose leaves answer synchronously, after 1..3
//          asynchronous lookups (goAsync + resumeNonBlockingCheck from a generated completion schedule), or fail to
//          start a lookup; owners that die while a lookup is pending; and fastCheck().
// Oracle : reference evaluator written from the statement: action of the first rule whose (possibly negated, possibly
//          grouped) ACLs all hold, else the opposite of the last rule's action, else DUNNO for an empty list;
//          == answer delivered (exactly once) to the nonBlockingCheck callback under every schedule, and
//          == fastCheck() (and == an all-synchronous nonBlockingCheck()).
#include "squid.h"
#include "acl/Acl.h"
#include "acl/AllOf.h"
#include "acl/AnyOf.h"
#include "acl/Checklist.h"
#include "acl/FilledChecklist.h"
#include "acl/Gadgets.h"
#include "acl/Node.h"
#include "acl/Tree.h"
#include "anyp/PortCfg.h"
#include "cbdata.h"
#include "ConfigParser.h"
#include "debug/Stream.h"
#include "SquidConfig.h"

#include "verif_pbt.h"
#include "../C43/acl_memstub.h"

/* globals required to resolve link issues (as in tests/testACLMaxUserIP.cc) */
AnyP::PortCfgPointer HttpPortList;

// a smaller quarantine than ASan's 256 MB default keeps the working set (and page-fault cost) small
extern "C" const char *__asan_default_options() { return "quarantine_size_mb=16:malloc_context_size=2"; }

// ------------------------------------------------------------------ case description

enum Mode { mSync = 0, mAsync1 = 1, mAsync2 = 2, mAsync3 = 3, mFailsToStart = 4 };

struct Ref { bool neg = false; bool group = false; int idx = 0; };          // [!]aN or [!]gN
struct Group { bool anyOf = false; std::vector< std::vector<Ref> > lines; }; // "acl gN any-of|all-of ..." lines
struct Rule { bool allow = false; std::vector<Ref> items; };
struct CheckSpec { std::vector<int> truth; std::vector<int> mode; bool ownerDies = false; };

struct Case {
    int nLeaves = 1;
    std::vector<Group> groups;
    std::vector<Rule> rules;
    std::vector<CheckSpec> checks;
    std::vector<int> schedule;
};

static std::string refText(const Ref &r) { return std::string(r.neg ? "!" : "") + (r.group ? "g" : "a") + std::to_string(r.idx); }

static std::string refsText(const std::vector<Ref> &v, const char *sep)
{
    std::string s;
    for (size_t i = 0; i < v.size(); ++i) s += (i ? sep : "") + refText(v[i]);
    return s;
}

static std::vector<Ref> parseRefs(const std::string &s)
{
    std::vector<Ref> out;
    size_t i = 0;
    while (i < s.size()) {
        size_t j = s.find(',', i);
        if (j == std::string::npos) j = s.size();
        std::string t = s.substr(i, j - i);
        i = j + 1;
        if (t.empty()) continue;
        Ref r;
        size_t k = 0;
        if (t[k] == '!') { r.neg = true; ++k; }
        if (k < t.size() && t[k] == 'g') r.group = true;
        r.idx = atoi(t.c_str() + k + 1);
        out.push_back(r);
    }
    return out;
}

static std::string show(const Case &c)
{
    vp::Writer w;
    w.i("nleaves", c.nLeaves);
    for (const auto &g : c.groups) {
        std::string s = g.anyOf ? "any:" : "all:";
        for (size_t l = 0; l < g.lines.size(); ++l) s += (l ? ";" : "") + refsText(g.lines[l], ",");
        w.s("group", s);
    }
    for (const auto &r : c.rules) w.s("rule", std::string(r.allow ? "allow:" : "deny:") + refsText(r.items, ","));
    for (const auto &k : c.checks) {
        std::string s;
        for (int t : k.truth) s += t ? '1' : '0';
        s += ':';
        for (int m : k.mode) s += static_cast<char>('0' + m);
        s += k.ownerDies ? ":1" : ":0";
        w.s("check", s);
    }
    for (int x : c.schedule) w.i("sched", x);
    return w.str();
}

static Case parse(const std::string &t)
{
    vp::Reader r(t);
    Case c;
    c.nLeaves = static_cast<int>(r.i("nleaves"));
    for (size_t i = 0; i < r.count("group"); ++i) {
        const std::string s = r.s("group", i);
        Group g;
        g.anyOf = s.compare(0, 4, "any:") == 0;
        std::string rest = s.size() >= 4 ? s.substr(4) : "";
        size_t p = 0;
        while (p <= rest.size()) {
            size_t q = rest.find(';', p);
            if (q == std::string::npos) q = rest.size();
            g.lines.push_back(parseRefs(rest.substr(p, q - p)));
            p = q + 1;
        }
        c.groups.push_back(g);
    }
    for (size_t i = 0; i < r.count("rule"); ++i) {
        const std::string s = r.s("rule", i);
        Rule ru;
        const auto colon = s.find(':');
        ru.allow = s.compare(0, 5, "allow") == 0;
        ru.items = parseRefs(colon == std::string::npos ? "" : s.substr(colon + 1));
        c.rules.push_back(ru);
    }
    for (size_t i = 0; i < r.count("check"); ++i) {
        const std::string s = r.s("check", i);
        CheckSpec k;
        const auto c1 = s.find(':');
        const auto c2 = c1 == std::string::npos ? c1 : s.find(':', c1 + 1);
        if (c1 == std::string::npos || c2 == std::string::npos) continue;
        for (size_t j = 0; j < c1; ++j) k.truth.push_back(s[j] == '1');
        for (size_t j = c1 + 1; j < c2; ++j) k.mode.push_back(s[j] - '0');
        k.ownerDies = s.size() > c2 + 1 && s[c2 + 1] == '1';
        c.checks.push_back(k);
    }
    for (size_t i = 0; i < r.count("sched"); ++i) c.schedule.push_back(static_cast<int>(r.i("sched", i)));
    return c;
}

/// structural promises of the generator (re-checked for replayed files)
static bool wellFormed(const Case &c, const bool allowEmptyList)
{
    if (c.nLeaves < 1 || c.nLeaves > 12) return false;
    auto refOk = [&](const Ref &r, const int groupsBefore) { return r.idx >= 0 && r.idx < (r.group ? groupsBefore : c.nLeaves); };
    for (size_t g = 0; g < c.groups.size(); ++g) {
        if (c.groups[g].lines.empty()) return false;
        for (const auto &line : c.groups[g].lines) {
            if (line.empty()) return false;
            for (const auto &r : line) if (!refOk(r, static_cast<int>(g))) return false;
        }
    }
    if (c.rules.empty() && !allowEmptyList) return false;
    for (const auto &ru : c.rules) {
        if (ru.items.empty()) return false; // aclParseAccessLine skips (with a warning) rules without ACLs: not generated
        for (const auto &r : ru.items) if (!refOk(r, static_cast<int>(c.groups.size()))) return false;
    }
    if (c.checks.empty()) return false;
    for (const auto &k : c.checks) {
        if (static_cast<int>(k.truth.size()) != c.nLeaves || static_cast<int>(k.mode.size()) != c.nLeaves) return false;
        for (int m : k.mode) if (m < 0 || m > 4) return false;
    }
    return true;
}

// ------------------------------------------------------------------ reference evaluator (from the statement)

enum Decision { dAllow, dDeny, dDunno };

struct RefEval {
    const Case &c;
    std::vector<bool> leaf; // what each leaf ACL answers in this check
    bool ref(const Ref &r) const { const bool v = r.group ? group(r.idx) : leaf[r.idx]; return r.neg ? !v : v; }
    bool all(const std::vector<Ref> &items) const { for (const auto &r : items) if (!ref(r)) return false; return true; }
    bool group(const int g) const
    {
        const Group &G = c.groups[g];
        if (G.anyOf) { // any member of any line
            for (const auto &line : G.lines) for (const auto &r : line) if (ref(r)) return true;
            return false;
        }
        for (const auto &line : G.lines) if (all(line)) return true; // all-of: every line is an alternative conjunction
        return false;
    }
    /// -> decision; winner = index of the deciding rule, or -1 for the implicit/empty answer
    Decision decide(int &winner) const
    {
        winner = -1;
        for (size_t i = 0; i < c.rules.size(); ++i)
            if (all(c.rules[i].items)) { winner = static_cast<int>(i); return c.rules[i].allow ? dAllow : dDeny; }
        if (c.rules.empty()) return dDunno;
        return c.rules.back().allow ? dDeny : dAllow;
    }
};

static const char *decisionText(const Decision d) { return d == dAllow ? "ALLOWED" : (d == dDeny ? "DENIED" : "DUNNO"); }

static Decision fromAnswer(const Acl::Answer &a)
{
    if (a.allowed()) return dAllow;
    if (a.denied()) return dDeny;
    return dDunno; // DUNNO and anything else that is neither allow nor deny
}

// ------------------------------------------------------------------ synthetic ACL, owners, the harness' event loop

struct CheckState {
    const CheckSpec *spec = nullptr;
    std::vector<int> lookupsDone;
    int lookupsStarted = 0;
    int idx = -1;
};

struct Pending { ACLFilledChecklist *checklist; int leaf; int check; };

struct World {
    std::map<const ACLChecklist *, CheckState> live;
    std::vector<Pending> pending;
    std::vector<int> delivered;       // callbacks per check
    std::vector<Decision> answers;
    std::vector<int> lookups;         // successfully started lookups per check
    std::vector<bool> deliveredAfterDeath;
    std::vector<bool> ownerDead;
    std::string problem;              // harness-level inconsistency (never expected)
};
static World *world = nullptr;

static void StartLookup(ACLFilledChecklist &ch, const Acl::Node &);
static void StartLookupThatCompletesAtOnce(ACLFilledChecklist &ch, const Acl::Node &);

class SynthAcl: public Acl::Node
{
    MEMPROXY_CLASS(SynthAcl);
public:
    char const *typeString() const override { return "vpsynth"; }
    void parse() override { if (const char *t = ConfigParser::strtokFile()) id = atoi(t); }
    SBufList dump() const override { SBufList l; SBuf s; s.Printf("%d", id); l.push_back(s); return l; }
    bool empty() const override { return id < 0; }
    int id = -1;
private:
    int match(ACLChecklist *ch) override
    {
        auto it = world->live.find(ch);
        if (it == world->live.end() || id < 0 || id >= static_cast<int>(it->second.spec->mode.size())) { world->problem = "leaf evaluated outside a known check"; return 0; }
        CheckState &st = it->second;
        const int mode = st.spec->mode[id];
        if (mode == mFailsToStart) {
            // a lookup whose starter answers at once: goAsync() reports false and, like the real slow ACLs
            // (e.g. DestinationIP "else fall through to mismatch"), this ACL then does not match
            if (ch->goAsync(StartLookupThatCompletesAtOnce, *this)) { world->problem = "goAsync succeeded although the starter resumed at once"; return -1; }
            return 0;
        }
        if (mode >= mAsync1 && st.lookupsDone[id] < mode) {
            if (ch->goAsync(StartLookup, *this))
                return -1; // pending; we are evaluated again after resumeNonBlockingCheck()
            return 0;      // slow ACL in a fast-only context: no match
        }
        return st.spec->truth[id] ? 1 : 0;
    }
};

static void StartLookup(ACLFilledChecklist &ch, const Acl::Node &acl)
{
    const auto &leaf = dynamic_cast<const SynthAcl &>(acl);
    auto it = world->live.find(&ch);
    if (it == world->live.end()) { world->problem = "lookup started for an unknown check"; return; }
    ++it->second.lookupsStarted;
    ++world->lookups[it->second.idx];
    world->pending.push_back({&ch, leaf.id, it->second.idx});
}

static void StartLookupThatCompletesAtOnce(ACLFilledChecklist &ch, const Acl::Node &)
{
    ch.resumeNonBlockingCheck(); // "oops, we did not really go async"
}

class Owner
{
    CBDATA_CLASS(Owner);
public:
    explicit Owner(int i): idx(i) {}
    int idx;
};
CBDATA_CLASS_INIT(Owner);

static void Done(Acl::Answer answer, void *data)
{
    const auto owner = static_cast<Owner *>(data);
    const int i = owner->idx;
    ++world->delivered[i];
    world->answers[i] = fromAnswer(answer);
    if (world->ownerDead[i]) world->deliveredAfterDeath[i] = true;
    for (auto it = world->live.begin(); it != world->live.end(); ++it)
        if (it->second.idx == i) { world->live.erase(it); break; } // the checklist deletes itself after this callback
}

// ------------------------------------------------------------------ configuration through the real parser

static acl_access *accessList = nullptr;

static void setLine(std::vector<char> &buf, const std::string &text)
{
    buf.assign(text.begin(), text.end());
    buf.push_back('\0');
    ConfigParser::SetCfgLine(buf.data());
}

static void aclLine(const std::string &text)
{
    std::vector<char> buf;
    setLine(buf, text);
    ConfigParser parser;
    Acl::Node::ParseNamedAcl(parser, Config.namedAcls);
    ConfigParser::SetCfgLine(nullptr);
}

static void teardown()
{
    if (accessList) aclDestroyAccessList(&accessList);
    if (Config.namedAcls) Acl::FreeNamedAcls(&Config.namedAcls);
}

static bool configure(const Case &c)
{
    teardown();
    // squid.conf default "configuration_includes_quoted_values off" (what default_all() sets before parsing)
    ConfigParser::RecognizeQuotedValues = false;
    ConfigParser::StrictMode = false;
    for (int i = 0; i < c.nLeaves; ++i) aclLine("a" + std::to_string(i) + " vpsynth " + std::to_string(i));
    for (size_t g = 0; g < c.groups.size(); ++g)
        for (const auto &line : c.groups[g].lines)
            aclLine("g" + std::to_string(g) + (c.groups[g].anyOf ? " any-of " : " all-of ") + refsText(line, " "));
    for (const auto &ru : c.rules) {
        std::vector<char> buf;
        setLine(buf, std::string(ru.allow ? "allow " : "deny ") + refsText(ru.items, " "));
        ConfigParser parser;
        aclParseAccessLine("http_access", parser, &accessList);
        ConfigParser::SetCfgLine(nullptr);
    }
    if (c.rules.empty()) return accessList == nullptr;
    return accessList && *accessList && Acl::ToTree(accessList).childrenCount() == c.rules.size();
}

static std::vector<bool> leafValues(const CheckSpec &k, const bool fastContext)
{
    std::vector<bool> v;
    for (size_t i = 0; i < k.truth.size(); ++i) {
        bool t = k.truth[i] != 0;
        if (k.mode[i] == mFailsToStart) t = false;            // cannot start its lookup: no match
        if (fastContext && k.mode[i] != mSync) t = false;     // slow ACL in a fast-only check: no match
        v.push_back(t);
    }
    return v;
}

// ------------------------------------------------------------------ sub-property: asynchronous schedules

static vp::Verdict checkAsync(const Case &c, vp::Ctx &ctx)
{
    World w;
    world = &w;
    if (!wellFormed(c, false)) { ctx.excluded("malformed case"); world = nullptr; return vp::pass(); }
    if (!configure(c)) { teardown(); world = nullptr; return vp::fail("acl:configuration-not-built"); }
    const int n = static_cast<int>(c.checks.size());
    w.delivered.assign(n, 0);
    w.answers.assign(n, dDunno);
    w.lookups.assign(n, 0);
    w.deliveredAfterDeath.assign(n, false);
    w.ownerDead.assign(n, false);
    std::vector<Owner *> owners(n, nullptr);
    std::vector<bool> killedWhilePending(n, false);

    int started = 0;
    size_t step = 0;
    bool interleaved = false;
    for (int guard = 0; guard < 1000; ++guard) {
        // enabled actions: start the next check | complete pending lookup j | kill a mortal owner whose lookup is pending
        std::vector<int> kills;
        for (const auto &p : w.pending)
            if (c.checks[p.check].ownerDies && !w.ownerDead[p.check]) kills.push_back(p.check);
        const int nStart = started < n ? 1 : 0;
        const int total = nStart + static_cast<int>(w.pending.size()) + static_cast<int>(kills.size());
        if (!total) break;
        int pick = step < c.schedule.size() ? (c.schedule[step] % total + total) % total : 0;
        ++step;
        if (pick < nStart) {
            const int i = started++;
            owners[i] = new Owner(i);
            auto cl = ACLFilledChecklist::Make(accessList, nullptr);
            CheckState st;
            st.spec = &c.checks[i];
            st.lookupsDone.assign(c.nLeaves, 0);
            st.idx = i;
            w.live[cl.get()] = st;
            if (!w.pending.empty()) interleaved = true;
            ACLFilledChecklist::NonBlockingCheck(std::move(cl), Done, owners[i]);
            continue;
        }
        pick -= nStart;
        if (pick < static_cast<int>(w.pending.size())) {
            const Pending p = w.pending[pick];
            w.pending.erase(w.pending.begin() + pick);
            if (pick != 0) interleaved = true;
            auto it = w.live.find(p.checklist);
            if (it == w.live.end()) { w.problem = "pending lookup of an unknown check"; break; }
            ++it->second.lookupsDone[p.leaf];
            const bool dead = w.ownerDead[p.check];
            p.checklist->resumeNonBlockingCheck();
            if (dead) { // "caller is gone": the checklist destroyed itself without a callback
                auto it2 = w.live.find(p.checklist);
                if (it2 != w.live.end() && it2->second.idx == p.check) w.live.erase(it2);
            }
            continue;
        }
        pick -= static_cast<int>(w.pending.size());
        const int victim = kills[pick];
        w.ownerDead[victim] = true;
        killedWhilePending[victim] = true;
        delete owners[victim]; // cbdata: invalidated now, memory released when the checklist drops its reference
        owners[victim] = nullptr;
    }

    vp::Verdict v = vp::pass();
    int asyncChecks = 0, lateWinner = 0;
    bool nontrivial = false;
    for (int i = 0; i < n && v.ok; ++i) {
        RefEval ev{c, leafValues(c.checks[i], false)};
        int winner = -1;
        const Decision want = ev.decide(winner);
        if (w.lookups[i]) ++asyncChecks;
        if (winner != 0) ++lateWinner;
        if (w.lookups[i] >= 2 && winner != 0) nontrivial = true;
        const std::string who = "check " + std::to_string(i) + ": ";
        if (killedWhilePending[i]) {
            if (w.deliveredAfterDeath[i]) v = vp::fail("acl:answer-delivered-to-dead-owner", who);
            continue;
        }
        if (w.delivered[i] == 0) v = vp::fail("acl:no-answer-delivered", who + "want " + decisionText(want));
        else if (w.delivered[i] > 1) v = vp::fail("acl:answer-delivered-twice", who);
        else if (w.answers[i] != want)
            v = vp::fail(w.lookups[i] ? "acl:wrong-decision-after-async-lookups" : "acl:wrong-decision-nonblocking-sync",
                         who + "got " + decisionText(w.answers[i]) + " want " + decisionText(want) + " lookups " + std::to_string(w.lookups[i]));
    }
    if (v.ok && !w.problem.empty()) v = vp::fail("acl:harness-inconsistency", w.problem);
    if (v.ok && (!w.pending.empty() || !w.live.empty())) v = vp::fail("acl:check-never-finished", "pending " + std::to_string(w.pending.size()) + " live " + std::to_string(w.live.size()));

    if (nontrivial) { ctx.nontrivial(); ctx.label("two-or-more-lookups-and-winner-not-first-rule"); }
    if (asyncChecks) ctx.label("some-check-went-async");
    if (asyncChecks >= 2) ctx.label("concurrent-async-checks");
    if (interleaved) ctx.label("interleaved-completions");
    if (lateWinner) ctx.label("winner-not-first-rule");
    if (!c.groups.empty()) ctx.label("has-groups");
    for (int i = 0; i < n; ++i) if (killedWhilePending[i]) { ctx.label("owner-died-while-lookup-pending"); break; }
    for (const auto &k : c.checks) { bool f = false; for (int m : k.mode) if (m == mFailsToStart) f = true; if (f) { ctx.label("lookup-fails-to-start"); break; } }

    for (auto *o : owners) delete o;
    teardown();
    world = nullptr;
    return v;
}

// ------------------------------------------------------------------ sub-property: fast path vs slow path vs reference

static vp::Verdict checkFast(const Case &c, vp::Ctx &ctx)
{
    World w;
    world = &w;
    if (!wellFormed(c, true)) { ctx.excluded("malformed case"); world = nullptr; return vp::pass(); }
    if (!configure(c)) { teardown(); world = nullptr; return vp::fail("acl:configuration-not-built"); }
    const int n = static_cast<int>(c.checks.size());
    vp::Verdict v = vp::pass();
    bool late = false, slowInFast = false;
    for (int i = 0; i < n && v.ok; ++i) {
        const CheckSpec &k = c.checks[i];
        bool allSync = true;
        for (int m : k.mode) if (m != mSync) allSync = false;
        RefEval ev{c, leafValues(k, true)};
        int winner = -1;
        const Decision want = ev.decide(winner);
        if (winner != 0) late = true;
        if (!allSync) slowInFast = true;
        const std::string who = "check " + std::to_string(i) + ": ";

        w.delivered.assign(n, 0);
        w.answers.assign(n, dDunno);
        w.lookups.assign(n, 0);
        w.deliveredAfterDeath.assign(n, false);
        w.ownerDead.assign(n, false);
        Decision fast;
        {
            ACLFilledChecklist ch(accessList, nullptr);
            CheckState st;
            st.spec = &k;
            st.lookupsDone.assign(c.nLeaves, 0);
            st.idx = i;
            w.live[&ch] = st;
            fast = fromAnswer(ch.fastCheck());
            // a second evaluation with the same checklist (sequential reuse is supported) must agree
            const Decision again = fromAnswer(ch.fastCheck());
            w.live.erase(&ch);
            if (again != fast) { v = vp::fail("acl:fast-check-not-repeatable", who); break; }
        }
        if (fast != want) {
            v = vp::fail(c.rules.empty() ? "acl:wrong-decision-empty-list" : "acl:wrong-decision-fast",
                         who + "got " + decisionText(fast) + " want " + decisionText(want));
            break;
        }
        if (allSync && !c.rules.empty()) { // callers never start a non-blocking check without rules
            auto owner = new Owner(i);
            auto cl = ACLFilledChecklist::Make(accessList, nullptr);
            CheckState st;
            st.spec = &k;
            st.lookupsDone.assign(c.nLeaves, 0);
            st.idx = i;
            w.live[cl.get()] = st;
            ACLFilledChecklist::NonBlockingCheck(std::move(cl), Done, owner);
            delete owner;
            if (w.delivered[i] != 1) { v = vp::fail("acl:no-answer-delivered", who + "all-sync non-blocking check"); break; }
            if (w.answers[i] != fast) { v = vp::fail("acl:fast-and-slow-paths-disagree", who + "fast " + decisionText(fast) + " slow " + decisionText(w.answers[i])); break; }
        }
    }
    if (v.ok && !w.problem.empty()) v = vp::fail("acl:harness-inconsistency", w.problem);
    if (late && (c.rules.size() >= 2 || !c.groups.empty())) ctx.nontrivial();
    if (late) ctx.label("winner-not-first-rule");
    if (c.rules.empty()) ctx.label("empty-list");
    if (slowInFast) ctx.label("slow-acl-in-fast-check");
    if (!c.groups.empty()) ctx.label("has-groups");
    w.live.clear();
    teardown();
    world = nullptr;
    return v;
}

// ------------------------------------------------------------------ generators

static rc::Gen<Case> gen(const bool asyncFlavour)
{
    using namespace rc;
    return gen::exec([asyncFlavour]() {
        Case c;
        c.nLeaves = *vp::range<int>(1, 6);
        const int nGroups = *gen::weightedElement<int>({{4, 0}, {3, 1}, {2, 2}, {1, 3}});
        auto pickRef = [&](const int groupsAvail, const int groupPct) {
            Ref r;
            r.neg = *vp::range<int>(0, 9) < 3;
            if (groupsAvail > 0 && *vp::range<int>(0, 99) < groupPct) { r.group = true; r.idx = *vp::range<int>(0, groupsAvail - 1); }
            else r.idx = *vp::range<int>(0, c.nLeaves - 1);
            return r;
        };
        for (int g = 0; g < nGroups; ++g) {
            Group G;
            G.anyOf = *gen::arbitrary<bool>();
            const int lines = *gen::weightedElement<int>({{3, 1}, {2, 2}, {1, 3}});
            for (int l = 0; l < lines; ++l) {
                std::vector<Ref> line;
                const int m = *vp::range<int>(1, 3);
                for (int k = 0; k < m; ++k) line.push_back(pickRef(g, 25));
                G.lines.push_back(line);
            }
            c.groups.push_back(G);
        }
        const int nRules = (!asyncFlavour && *vp::range<int>(0, 19) == 0) ? 0 : *vp::range<int>(1, 6);
        for (int i = 0; i < nRules; ++i) {
            Rule ru;
            ru.allow = *gen::arbitrary<bool>();
            const int m = *vp::range<int>(1, 4);
            for (int k = 0; k < m; ++k) ru.items.push_back(pickRef(nGroups, 35));
            c.rules.push_back(ru);
        }
        const int nChecks = asyncFlavour ? *gen::weightedElement<int>({{3, 1}, {3, 2}, {2, 3}}) : *vp::range<int>(1, 3);
        // bias truth values so that early rules often fail and late rules / the implicit rule decide
        const int truePct = *gen::element(20, 35, 50, 65, 80);
        for (int i = 0; i < nChecks; ++i) {
            CheckSpec k;
            const int asyncPct = asyncFlavour ? *gen::element(30, 60, 90) : *gen::element(0, 0, 30);
            for (int l = 0; l < c.nLeaves; ++l) {
                k.truth.push_back(*vp::range<int>(0, 99) < truePct ? 1 : 0);
                int m = mSync;
                if (*vp::range<int>(0, 99) < asyncPct) m = *gen::weightedElement<int>({{6, mAsync1}, {2, mAsync2}, {1, mAsync3}, {1, mFailsToStart}});
                k.mode.push_back(m);
            }
            k.ownerDies = asyncFlavour && *vp::range<int>(0, 9) == 0;
            c.checks.push_back(k);
        }
        if (asyncFlavour) {
            const int steps = *vp::range<int>(0, 30);
            for (int i = 0; i < steps; ++i) c.schedule.push_back(*vp::range<int>(0, 5));
        }
        return c;
    });
}

static void registerAll()
{
    for (auto &l : Debug::Levels) l = getenv("VP_DEBUG") ? atoi(getenv("VP_DEBUG")) : -1;
    Acl::RegisterMaker("vpsynth", [](Acl::TypeName)->Acl::Node* { return new SynthAcl; });
    Acl::RegisterMaker("all-of", [](Acl::TypeName)->Acl::Node* { return new Acl::AllOf; });
    Acl::RegisterMaker("any-of", [](Acl::TypeName)->Acl::Node* { return new Acl::AnyOf; });
    vp::add<Case>("async_schedules", gen(true), checkAsync, show, parse, 3.0);
    vp::add<Case>("fast_and_sync_paths", gen(false), checkFast, show, parse, 1.0);
}

VP_MAIN(registerAll)
