// C52 Overflow-safe arithmetic helpers are exact (src/SquidMath.h: Less, IncreaseSum, NaturalSum,
// SetToNaturalSumOrMax).
// Domain : (a) every value pair (and triple) of the 8-bit types, every value pair of the 16-bit
//          types, enumerated by index; (b) boundary-dense values over the full 8x8 type matrix of
//          {int,uint}{8,16,32,64}_t for Less, 1-, 2- and 3-argument sums.
// Oracle : __int128 arithmetic written from the statement:
//          Less(a,b) == (a < b) mathematically;
//          sum present <=> every argument >= 0 and exact sum <= max(S), and then value == exact sum;
//          SetToNaturalSumOrMax stores/returns the exact sum or max(S).
#include "squid.h"
#include "SquidMath.h"

#include "verif_pbt.h"

#include <limits>
#include <optional>

using i128 = __int128;

// rapidcheck allocates many small objects per case; with ASan's default 256 MB quarantine every
// allocation touches fresh pages (8x slower).  The code under test here is header-only arithmetic.
extern "C" const char *__asan_default_options() { return "quarantine_size_mb=4"; }

template <class T> struct Tag { using type = T; };

static const char *const kTypeNames[8] = {"i8", "u8", "i16", "u16", "i32", "u32", "i64", "u64"};
enum { kI8, kU8, kI16, kU16, kI32, kU32, kI64, kU64, kTypes };

template <class R, class F>
static R withType(const int idx, F &&f)
{
    switch (idx) {
    case kI8: return f(Tag<int8_t>{});
    case kU8: return f(Tag<uint8_t>{});
    case kI16: return f(Tag<int16_t>{});
    case kU16: return f(Tag<uint16_t>{});
    case kI32: return f(Tag<int32_t>{});
    case kU32: return f(Tag<uint32_t>{});
    case kI64: return f(Tag<int64_t>{});
    default: return f(Tag<uint64_t>{});
    }
}

/// the 3-argument matrix is restricted to the 32/64-bit argument types (the 8/16-bit ones are
/// covered exhaustively and by the full 2-argument matrix); keeps template instantiations bounded
template <class R, class F>
static R withWideType(const int idx, F &&f)
{
    switch (idx) {
    case kI32: return f(Tag<int32_t>{});
    case kU32: return f(Tag<uint32_t>{});
    case kI64: return f(Tag<int64_t>{});
    default: return f(Tag<uint64_t>{});
    }
}

static i128 typeMin(const int t)
{
    return withType<i128>(t, [](auto tag) { using T = typename decltype(tag)::type; return static_cast<i128>(std::numeric_limits<T>::min()); });
}
static i128 typeMax(const int t)
{
    return withType<i128>(t, [](auto tag) { using T = typename decltype(tag)::type; return static_cast<i128>(std::numeric_limits<T>::max()); });
}
static bool inType(const int t, const i128 v) { return t >= 0 && t < kTypes && v >= typeMin(t) && v <= typeMax(t); }

static std::string dec(i128 v)
{
    if (v == 0) return "0";
    const bool neg = v < 0;
    unsigned __int128 u = neg ? -static_cast<unsigned __int128>(v) : static_cast<unsigned __int128>(v);
    std::string s;
    while (u) { s += static_cast<char>('0' + static_cast<int>(u % 10)); u /= 10; }
    if (neg) s += '-';
    std::reverse(s.begin(), s.end());
    return s;
}
static i128 undec(const std::string &s)
{
    size_t i = 0;
    bool neg = false;
    if (i < s.size() && s[i] == '-') { neg = true; ++i; }
    unsigned __int128 u = 0;
    for (; i < s.size() && s[i] >= '0' && s[i] <= '9' && i < 30; ++i) u = u * 10 + (s[i] - '0');
    return neg ? -static_cast<i128>(u) : static_cast<i128>(u);
}

/// a value of type t: dense around the type's own limits, the limits of every other type, zero,
/// half-range points; sometimes uniformly random bits
static rc::Gen<i128> valueOf(const int t)
{
    using namespace rc;
    return gen::exec([t]() -> i128 {
        const i128 lo = typeMin(t), hi = typeMax(t);
        const int kind = *vp::range<int>(0, 9);
        i128 v = 0;
        if (kind <= 2) { // own limits
            const int w = *vp::range<int>(0, 4);
            v = w == 0 ? lo : w == 1 ? hi : w == 2 ? 0 : w == 3 ? hi / 2 : (lo < 0 ? lo / 2 : hi / 2 + 1);
        } else if (kind <= 6) { // limits of another type (the interesting points for mixed-type math)
            const int o = *vp::range<int>(0, kTypes - 1);
            const int w = *vp::range<int>(0, 3);
            v = w == 0 ? typeMax(o) : w == 1 ? typeMin(o) : w == 2 ? typeMax(o) / 2 : typeMax(o) + 1;
        } else if (kind == 7) { // small
            v = 0;
        } else { // random bits
            const uint64_t r = *gen::arbitrary<uint64_t>();
            const int shift = *vp::range<int>(0, 63);
            v = static_cast<i128>(r >> shift);
            if (lo < 0 && *gen::arbitrary<bool>()) v = -v;
        }
        v += *vp::range<int>(-3, 3);
        if (v < lo || v > hi) {
            // bring into range keeping the distance to the nearer limit small
            const unsigned __int128 span = static_cast<unsigned __int128>(hi - lo) + 1;
            const unsigned __int128 off = static_cast<unsigned __int128>(v - lo) % span;
            v = lo + static_cast<i128>(off);
        }
        return v;
    });
}

// ------------------------------------------------------------------ Less, full type matrix

struct LessCase {
    int ta = 0, tb = 0;
    i128 a = 0, b = 0;
};
static std::string showLess(const LessCase &c)
{
    return vp::Writer().s("ta", kTypeNames[c.ta & 7]).s("tb", kTypeNames[c.tb & 7]).s("a", dec(c.a)).s("b", dec(c.b)).str();
}
static int typeIndex(const std::string &n)
{
    for (int i = 0; i < kTypes; ++i) if (n == kTypeNames[i]) return i;
    return 0;
}
static LessCase parseLess(const std::string &t)
{
    vp::Reader r(t);
    LessCase c;
    c.ta = typeIndex(r.s("ta")); c.tb = typeIndex(r.s("tb")); c.a = undec(r.s("a")); c.b = undec(r.s("b"));
    return c;
}
static rc::Gen<LessCase> genLess()
{
    using namespace rc;
    return gen::exec([]() {
        LessCase c;
        c.ta = *vp::range<int>(0, kTypes - 1);
        c.tb = *vp::range<int>(0, kTypes - 1);
        c.a = *valueOf(c.ta);
        const int rel = *vp::range<int>(0, 3);
        if (rel == 0) { // b next to a (when representable)
            const i128 cand = c.a + *vp::range<int>(-1, 1);
            c.b = inType(c.tb, cand) ? cand : *valueOf(c.tb);
        } else
            c.b = *valueOf(c.tb);
        return c;
    });
}
static vp::Verdict checkLess(const LessCase &c, vp::Ctx &ctx)
{
    if (!inType(c.ta, c.a) || !inType(c.tb, c.b)) { ctx.excluded("replayed value outside its type"); return vp::pass(); }
    const bool got = withType<bool>(c.ta, [&](auto ta) {
        return withType<bool>(c.tb, [&](auto tb) {
            using A = typename decltype(ta)::type;
            using B = typename decltype(tb)::type;
            return Less(static_cast<A>(c.a), static_cast<B>(c.b));
        });
    });
    const bool want = c.a < c.b;
    const bool mixedSign = (c.a < 0) != (c.b < 0);
    const bool mixedTypes = (typeMin(c.ta) < 0) != (typeMin(c.tb) < 0);
    const i128 d = c.a - c.b;
    const bool adjacent = d >= -1 && d <= 1;
    if (mixedSign) ctx.label("operands-of-different-sign");
    if (mixedSign && mixedTypes && std::max(typeMax(c.ta), typeMax(c.tb)) >= typeMax(kU32)) ctx.label("negative-vs-wide-unsigned-type");
    if (adjacent) ctx.label("adjacent-or-equal");
    ctx.label(want ? "less" : "not-less");
    if (mixedSign || adjacent) ctx.nontrivial();
    if (got != want)
        return vp::fail("less:wrong-result", std::string("Less(") + kTypeNames[c.ta] + " " + dec(c.a) + ", " + kTypeNames[c.tb] + " " + dec(c.b) + ") = " + (got ? "true" : "false"));
    return vp::pass();
}

// ------------------------------------------------------------------ sums, full type matrix

struct SumOut {
    bool present = false;
    i128 value = 0;
    i128 var = 0; // SetToNaturalSumOrMax: the variable afterwards
};

template <class S>
static SumOut toOut(const std::optional<S> &o)
{
    SumOut r;
    r.present = o.has_value();
    if (r.present) r.value = static_cast<i128>(o.value());
    return r;
}

enum { kNatural, kIncrease, kClamp, kFns };
static const char *const kFnNames[kFns] = {"NaturalSum", "IncreaseSum", "SetToNaturalSumOrMax"};

struct SumCase {
    int fn = kNatural;
    int ts = 0;
    int n = 2;           // number of summands after the start value
    int t[3] = {0, 0, 0};
    i128 v[3] = {0, 0, 0};
    i128 s0 = 0;         // IncreaseSum: first argument (type S); SetToNaturalSumOrMax: previous variable value
};
static std::string showSum(const SumCase &c)
{
    vp::Writer w;
    w.s("fn", kFnNames[c.fn % kFns]).s("S", kTypeNames[c.ts & 7]).s("s0", dec(c.s0)).i("n", c.n);
    for (int i = 0; i < c.n && i < 3; ++i) { w.s("t", kTypeNames[c.t[i] & 7]); w.s("v", dec(c.v[i])); }
    return w.str();
}
static SumCase parseSum(const std::string &text)
{
    vp::Reader r(text);
    SumCase c;
    const std::string fn = r.s("fn");
    c.fn = fn == kFnNames[kIncrease] ? kIncrease : fn == kFnNames[kClamp] ? kClamp : kNatural;
    c.ts = typeIndex(r.s("S"));
    c.s0 = undec(r.s("s0"));
    c.n = static_cast<int>(std::max<long long>(1, std::min<long long>(3, r.i("n"))));
    for (int i = 0; i < c.n; ++i) { c.t[i] = typeIndex(r.s("t", i)); c.v[i] = undec(r.s("v", i)); }
    return c;
}

static rc::Gen<SumCase> genSum()
{
    using namespace rc;
    return gen::exec([]() {
        SumCase c;
        c.fn = *vp::range<int>(0, kFns - 1);
        c.ts = *vp::range<int>(0, kTypes - 1);
        c.n = *gen::weightedElement<int>({{1, 1}, {4, 2}, {3, 3}});
        for (int i = 0; i < c.n; ++i)
            c.t[i] = c.n == 3 ? *vp::range<int>(kI32, kU64) : *vp::range<int>(0, kTypes - 1);
        const i128 maxS = typeMax(c.ts);
        // start value: mostly zero/small, sometimes near the limit or negative
        c.s0 = 0;
        if (c.fn != kNatural) {
            const int k = *vp::range<int>(0, 5);
            c.s0 = k <= 1 ? 0 : k == 2 ? *vp::range<int>(0, 3) : *valueOf(c.ts);
        }
        const int plan = *vp::range<int>(0, 9);
        if (plan <= 5) {
            // aim the exact sum at max(S)+d: choose all but the last summand, solve for the last
            const i128 start = c.fn == kIncrease ? c.s0 : 0;
            i128 acc = start > 0 ? start : 0;
            for (int i = 0; i + 1 < c.n; ++i) {
                i128 x = *valueOf(c.t[i]);
                if (*vp::range<int>(0, 3) != 0) { // keep it non-negative and below the target most of the time
                    if (x < 0) x = -(x + 1);
                    if (x > maxS - acc) x = (maxS - acc) > 0 ? x % (maxS - acc + 1) : 0;
                    if (!inType(c.t[i], x)) x = 0;
                }
                c.v[i] = x;
                if (x > 0) acc += x;
            }
            const i128 want = maxS + *vp::range<int>(-2, 2) - acc;
            const int last = c.n - 1;
            c.v[last] = inType(c.t[last], want) ? want : *valueOf(c.t[last]);
        } else {
            for (int i = 0; i < c.n; ++i) c.v[i] = *valueOf(c.t[i]);
        }
        return c;
    });
}

template <class S, class... Args>
static SumOut callSum(const int fn, const i128 s0, const Args... args)
{
    if (fn == kNatural) return toOut<S>(NaturalSum<S>(args...));
    if (fn == kIncrease) return toOut<S>(IncreaseSum(static_cast<S>(s0), args...));
    S var = static_cast<S>(s0);
    const S ret = SetToNaturalSumOrMax(var, args...);
    SumOut r;
    r.present = true;
    r.value = static_cast<i128>(ret);
    r.var = static_cast<i128>(var);
    return r;
}

static vp::Verdict judgeSum(const int fn, const int ts, const i128 s0, const int n, const i128 *v, const SumOut &got, vp::Ctx *ctx, const std::string &what)
{
    const i128 maxS = typeMax(ts);
    bool negative = false;
    i128 exact = 0;
    if (fn == kIncrease) { negative |= s0 < 0; exact += s0; }
    for (int i = 0; i < n; ++i) { negative |= v[i] < 0; exact += v[i]; }
    const bool fits = !negative && exact <= maxS;
    if (ctx) {
        const i128 d = exact - maxS;
        const bool near = !negative && d >= -2 && d <= 2;
        ctx->label(negative ? "has-negative-argument" : fits ? "fits" : "overflows");
        if (near) ctx->label("exact-sum-within-2-of-max");
        if (negative && exact >= 0 && exact <= maxS) ctx->label("negative-argument-but-total-fits");
        if (near || (negative && exact >= 0 && exact <= maxS)) ctx->nontrivial();
    }
    if (fn == kClamp) {
        const i128 want = fits ? exact : maxS;
        if (got.value != want || got.var != want)
            return vp::fail(fits ? "clamp:wrong-value-when-sum-fits" : "clamp:not-max-when-sum-does-not-fit",
                            what + " returned " + dec(got.value) + " stored " + dec(got.var) + " want " + dec(want));
        return vp::pass();
    }
    if (got.present && !fits)
        return vp::fail(negative ? "sum:result-despite-negative-argument" : "sum:result-despite-overflow", what + " returned " + dec(got.value) + " exact " + dec(exact));
    if (!got.present && fits)
        return vp::fail("sum:nothing-although-sum-fits", what + " exact " + dec(exact));
    if (got.present && got.value != exact)
        return vp::fail("sum:wrong-value", what + " returned " + dec(got.value) + " exact " + dec(exact));
    return vp::pass();
}

static vp::Verdict checkSum(const SumCase &c, vp::Ctx &ctx)
{
    if (c.n < 1 || c.n > 3 || c.fn < 0 || c.fn >= kFns) { ctx.excluded("malformed replay"); return vp::pass(); }
    for (int i = 0; i < c.n; ++i)
        if (!inType(c.t[i], c.v[i]) || (c.n == 3 && c.t[i] < kI32)) { ctx.excluded("replayed value outside its type / type outside the 3-argument matrix"); return vp::pass(); }
    if (!inType(c.ts, c.s0)) { ctx.excluded("replayed start value outside S"); return vp::pass(); }

    const SumOut got = withType<SumOut>(c.ts, [&](auto ts) {
        using S = typename decltype(ts)::type;
        if (c.n == 1)
            return withType<SumOut>(c.t[0], [&](auto t0) {
                using A = typename decltype(t0)::type;
                return callSum<S>(c.fn, c.s0, static_cast<A>(c.v[0]));
            });
        if (c.n == 2)
            return withType<SumOut>(c.t[0], [&](auto t0) {
                return withType<SumOut>(c.t[1], [&](auto t1) {
                    using A = typename decltype(t0)::type;
                    using B = typename decltype(t1)::type;
                    return callSum<S>(c.fn, c.s0, static_cast<A>(c.v[0]), static_cast<B>(c.v[1]));
                });
            });
        return withWideType<SumOut>(c.t[0], [&](auto t0) {
            return withWideType<SumOut>(c.t[1], [&](auto t1) {
                return withWideType<SumOut>(c.t[2], [&](auto t2) {
                    using A = typename decltype(t0)::type;
                    using B = typename decltype(t1)::type;
                    using C = typename decltype(t2)::type;
                    return callSum<S>(c.fn, c.s0, static_cast<A>(c.v[0]), static_cast<B>(c.v[1]), static_cast<C>(c.v[2]));
                });
            });
        });
    });
    ctx.label(std::string("fn:") + kFnNames[c.fn]);
    ctx.label(c.n == 1 ? "1-summand" : c.n == 2 ? "2-summands" : "3-summands");
    std::string what = std::string(kFnNames[c.fn]) + "<" + kTypeNames[c.ts] + ">(";
    if (c.fn != kNatural) what += "start " + dec(c.s0) + "; ";
    for (int i = 0; i < c.n; ++i) what += std::string(i ? ", " : "") + kTypeNames[c.t[i]] + " " + dec(c.v[i]);
    what += ")";
    return judgeSum(c.fn, c.ts, c.s0, c.n, c.v, got, &ctx, what);
}

// ------------------------------------------------------------------ exhaustive sweeps (enumerated by index)

/// One unit of an enumeration: function x type combination x block of first-argument values.
/// check() of a sweep case loops over every value pair/triple of the block.
struct SweepUnit {
    std::string name;                                   // e.g. "Less(i8,u8)"
    int blocks = 1;                                     // 1 for 8-bit combos, 256 for 16-bit ones
    std::function<vp::Verdict(int block, uint64_t &evals)> run;
};

template <class A, class B>
static vp::Verdict sweepLess(const int block, const int blocks, uint64_t &evals)
{
    const int aMin = std::numeric_limits<A>::min(), aMax = std::numeric_limits<A>::max();
    const int per = (aMax - aMin + 1) / blocks;
    const int lo = aMin + block * per, hi = lo + per - 1;
    const int bMin = std::numeric_limits<B>::min(), bMax = std::numeric_limits<B>::max();
    for (int a = lo; a <= hi; ++a) {
        for (int b = bMin; b <= bMax; ++b) {
            const bool got = Less(static_cast<A>(a), static_cast<B>(b));
            if (got != (a < b))
                return vp::fail("less:wrong-result", "Less(" + std::to_string(a) + ", " + std::to_string(b) + ") = " + (got ? "true" : "false"));
        }
    }
    evals += static_cast<uint64_t>(hi - lo + 1) * static_cast<uint64_t>(bMax - bMin + 1);
    return vp::pass();
}

static vp::Verdict judgeSmall(const int fn, const bool present, const int64_t value, const int64_t var, const bool negative, const int64_t exact, const int64_t maxS, const char *what, const int64_t a, const int64_t b, const int64_t c)
{
    const bool fits = !negative && exact <= maxS;
    const std::string args = std::string(what) + " args " + std::to_string(a) + ", " + std::to_string(b) + ", " + std::to_string(c);
    if (fn == kClamp) {
        const int64_t want = fits ? exact : maxS;
        if (value != want || var != want)
            return vp::fail(fits ? "clamp:wrong-value-when-sum-fits" : "clamp:not-max-when-sum-does-not-fit", args + " returned " + std::to_string(value) + " stored " + std::to_string(var));
        return vp::pass();
    }
    if (present && !fits) return vp::fail(negative ? "sum:result-despite-negative-argument" : "sum:result-despite-overflow", args + " returned " + std::to_string(value));
    if (!present && fits) return vp::fail("sum:nothing-although-sum-fits", args);
    if (present && value != exact) return vp::fail("sum:wrong-value", args + " returned " + std::to_string(value));
    return vp::pass();
}

/// fn(a, b) over every b and the block's a values; for kIncrease `a` has type S (it is the running sum)
template <class S, class A, class B>
static vp::Verdict sweepSum2(const int fn, const char *what, const int block, const int blocks, uint64_t &evals)
{
    const int aMin = std::numeric_limits<A>::min(), aMax = std::numeric_limits<A>::max();
    const int per = (aMax - aMin + 1) / blocks;
    const int lo = aMin + block * per, hi = lo + per - 1;
    const int bMin = std::numeric_limits<B>::min(), bMax = std::numeric_limits<B>::max();
    const int64_t maxS = std::numeric_limits<S>::max();
    for (int a = lo; a <= hi; ++a) {
        for (int b = bMin; b <= bMax; ++b) {
            const bool negative = a < 0 || b < 0;
            const int64_t exact = static_cast<int64_t>(a) + b;
            bool present = true;
            int64_t value = 0, var = 0;
            if (fn == kClamp) {
                S v = 0;
                value = SetToNaturalSumOrMax(v, static_cast<A>(a), static_cast<B>(b));
                var = v;
            } else {
                const std::optional<S> r = fn == kNatural ? NaturalSum<S>(static_cast<A>(a), static_cast<B>(b)) : IncreaseSum(static_cast<S>(static_cast<A>(a)), static_cast<B>(b));
                present = r.has_value();
                if (present) value = r.value();
            }
            const bool fits = !negative && exact <= maxS;
            const bool good = fn == kClamp ? (value == (fits ? exact : maxS) && var == value) : (present == fits && (!present || value == exact));
            if (!good) return judgeSmall(fn, present, value, var, negative, exact, maxS, what, a, b, 0);
        }
    }
    evals += static_cast<uint64_t>(hi - lo + 1) * static_cast<uint64_t>(bMax - bMin + 1);
    return vp::pass();
}

template <class S, class A, class B, class C>
static vp::Verdict sweepSum3(const int fn, const char *what, uint64_t &evals)
{
    const int64_t maxS = std::numeric_limits<S>::max();
    for (int a = std::numeric_limits<A>::min(); a <= std::numeric_limits<A>::max(); ++a) {
        for (int b = std::numeric_limits<B>::min(); b <= std::numeric_limits<B>::max(); ++b) {
            for (int c = std::numeric_limits<C>::min(); c <= std::numeric_limits<C>::max(); ++c) {
                const bool negative = a < 0 || b < 0 || c < 0;
                const int64_t exact = static_cast<int64_t>(a) + b + c;
                bool present = true;
                int64_t value = 0, var = 0;
                if (fn == kClamp) {
                    S v = 0;
                    value = SetToNaturalSumOrMax(v, static_cast<A>(a), static_cast<B>(b), static_cast<C>(c));
                    var = v;
                } else {
                    const std::optional<S> r = NaturalSum<S>(static_cast<A>(a), static_cast<B>(b), static_cast<C>(c));
                    present = r.has_value();
                    if (present) value = r.value();
                }
                const bool fits = !negative && exact <= maxS;
                const bool good = fn == kClamp ? (value == (fits ? exact : maxS) && var == value) : (present == fits && (!present || value == exact));
                if (!good) return judgeSmall(fn, present, value, var, negative, exact, maxS, what, a, b, c);
            }
        }
    }
    evals += 1ULL << 24;
    return vp::pass();
}

template <class T> static const char *tn();
template <> const char *tn<int8_t>() { return "i8"; }
template <> const char *tn<uint8_t>() { return "u8"; }
template <> const char *tn<int16_t>() { return "i16"; }
template <> const char *tn<uint16_t>() { return "u16"; }
template <> const char *tn<int32_t>() { return "i32"; }

template <class A, class B>
static void addLess(std::vector<SweepUnit> &u, const int blocks)
{
    SweepUnit s;
    s.name = std::string("Less(") + tn<A>() + "," + tn<B>() + ")";
    s.blocks = blocks;
    s.run = [blocks](int block, uint64_t &e) { return sweepLess<A, B>(block, blocks, e); };
    u.push_back(s);
}
template <class S, class A, class B>
static void addSum2(std::vector<SweepUnit> &u, const int fn, const int blocks)
{
    SweepUnit s;
    s.name = std::string(kFnNames[fn]) + "<" + tn<S>() + ">(" + tn<A>() + "," + tn<B>() + ")";
    s.blocks = blocks;
    const std::string name = s.name;
    s.run = [fn, blocks, name](int block, uint64_t &e) { return sweepSum2<S, A, B>(fn, name.c_str(), block, blocks, e); };
    u.push_back(s);
}
template <class S, class A, class B, class C>
static void addSum3(std::vector<SweepUnit> &u, const int fn)
{
    SweepUnit s;
    s.name = std::string(kFnNames[fn]) + "<" + tn<S>() + ">(" + tn<A>() + "," + tn<B>() + "," + tn<C>() + ")";
    const std::string name = s.name;
    s.run = [fn, name](int, uint64_t &e) { return sweepSum3<S, A, B, C>(fn, name.c_str(), e); };
    u.push_back(s);
}

template <class S, class A, class B>
static void addSum3Last(std::vector<SweepUnit> &u)
{
    addSum3<S, A, B, int8_t>(u, kNatural);
    addSum3<S, A, B, uint8_t>(u, kNatural);
}
template <class S>
static void addAll8ForS(std::vector<SweepUnit> &u)
{
    for (const int fn : {kNatural, kClamp}) {
        addSum2<S, int8_t, int8_t>(u, fn, 1);
        addSum2<S, int8_t, uint8_t>(u, fn, 1);
        addSum2<S, uint8_t, int8_t>(u, fn, 1);
        addSum2<S, uint8_t, uint8_t>(u, fn, 1);
    }
    addSum3Last<S, int8_t, int8_t>(u);
    addSum3Last<S, int8_t, uint8_t>(u);
    addSum3Last<S, uint8_t, int8_t>(u);
    addSum3Last<S, uint8_t, uint8_t>(u);
    addSum3<S, uint8_t, int8_t, uint8_t>(u, kClamp);
}

/// every value pair of {i8,u8}^2 for Less, NaturalSum/SetToNaturalSumOrMax into {i8,u8,i16},
/// IncreaseSum(s,t) with s,t in {i8,u8}; every value triple of {i8,u8}^3 for NaturalSum into {i8,u8,i16}
static const std::vector<SweepUnit> &units8()
{
    static std::vector<SweepUnit> u;
    if (!u.empty()) return u;
    addLess<int8_t, int8_t>(u, 1);
    addLess<int8_t, uint8_t>(u, 1);
    addLess<uint8_t, int8_t>(u, 1);
    addLess<uint8_t, uint8_t>(u, 1);
    // IncreaseSum(s, t): the result type is the type of s
    addSum2<int8_t, int8_t, int8_t>(u, kIncrease, 1);
    addSum2<int8_t, int8_t, uint8_t>(u, kIncrease, 1);
    addSum2<uint8_t, uint8_t, int8_t>(u, kIncrease, 1);
    addSum2<uint8_t, uint8_t, uint8_t>(u, kIncrease, 1);
    addAll8ForS<int8_t>(u);
    addAll8ForS<uint8_t>(u);
    addAll8ForS<int16_t>(u);
    return u;
}

template <class S>
static void addAll16ForS(std::vector<SweepUnit> &u)
{
    addSum2<S, int16_t, int16_t>(u, kNatural, 256);
    addSum2<S, int16_t, uint16_t>(u, kNatural, 256);
    addSum2<S, uint16_t, int16_t>(u, kNatural, 256);
    addSum2<S, uint16_t, uint16_t>(u, kNatural, 256);
}

/// every value pair of {i16,u16}^2 for Less and NaturalSum into {i16,u16,i32}; 256 blocks per combination
static const std::vector<SweepUnit> &units16()
{
    static std::vector<SweepUnit> u;
    if (!u.empty()) return u;
    addLess<int16_t, int16_t>(u, 256);
    addLess<int16_t, uint16_t>(u, 256);
    addLess<uint16_t, int16_t>(u, 256);
    addLess<uint16_t, uint16_t>(u, 256);
    addAll16ForS<int16_t>(u);
    addAll16ForS<uint16_t>(u);
    addAll16ForS<int32_t>(u);
    return u;
}

struct SweepCase {
    int unit = 0;
    int block = 0;
    std::string name; // informational; checked against the table on replay
};

static std::string showSweep(const SweepCase &c)
{
    return vp::Writer().i("unit", c.unit).i("block", c.block).s("name", c.name).str();
}
static SweepCase parseSweep(const std::string &t)
{
    vp::Reader r(t);
    SweepCase c;
    c.unit = static_cast<int>(r.i("unit")); c.block = static_cast<int>(r.i("block")); c.name = r.s("name");
    return c;
}

/// Enumerates (unit, block) in index order, wrapping around.  The first index of a process is drawn
/// from rapidcheck (so it depends only on the seed); a process that is given at least `total` cases
/// has swept everything, which it records with the label "complete-enumeration-finished".
struct Enumerator {
    const std::vector<SweepUnit> &(*table)();
    bool started = false;
    uint64_t next = 0, produced = 0, total = 0;
};

static rc::Gen<SweepCase> genSweep(Enumerator *e, const bool seededStart)
{
    using namespace rc;
    return gen::exec([e, seededStart]() {
        const auto &u = e->table();
        if (!e->started) {
            e->started = true;
            e->total = 0;
            for (const auto &s : u) e->total += s.blocks;
            e->next = seededStart ? *vp::range<uint64_t>(0, e->total - 1) : 0;
        }
        uint64_t idx = e->next;
        e->next = (e->next + 1) % e->total;
        ++e->produced;
        SweepCase c;
        for (size_t i = 0; i < u.size(); ++i) {
            if (idx < static_cast<uint64_t>(u[i].blocks)) { c.unit = static_cast<int>(i); c.block = static_cast<int>(idx); c.name = u[i].name; break; }
            idx -= u[i].blocks;
        }
        return c;
    });
}

static vp::Verdict checkSweepIn(const std::vector<SweepUnit> &u, Enumerator *e, const SweepCase &c, vp::Ctx &ctx)
{
    if (c.unit < 0 || static_cast<size_t>(c.unit) >= u.size() || c.block < 0 || c.block >= u[c.unit].blocks) { ctx.excluded("malformed replay"); return vp::pass(); }
    const SweepUnit &s = u[c.unit];
    uint64_t evals = 0;
    const vp::Verdict v = s.run(c.block, evals);
    ctx.label("swept:" + s.name);
    ctx.labels["value-tuples-evaluated"] += evals;
    if (e && e->started && e->produced % e->total == 0) ctx.label("complete-enumeration-finished");
    ctx.nontrivial(); // every block contains the sign and limit boundaries of its second argument
    return v;
}

static Enumerator gEnum8{units8}, gEnum16{units16};

static void registerAll()
{
    vp::add<LessCase>("less_type_matrix", genLess(), checkLess, showLess, parseLess, 3.0);
    vp::add<SumCase>("sum_type_matrix", genSum(), checkSum, showSum, parseSum, 6.0);
    vp::add<SweepCase>("exhaustive_8bit", genSweep(&gEnum8, false),
                       [](const SweepCase &c, vp::Ctx &ctx) { return checkSweepIn(units8(), &gEnum8, c, ctx); }, showSweep, parseSweep, 0.005);
    vp::add<SweepCase>("exhaustive_16bit", genSweep(&gEnum16, true),
                       [](const SweepCase &c, vp::Ctx &ctx) { return checkSweepIn(units16(), &gEnum16, c, ctx); }, showSweep, parseSweep, 0.015);
}

VP_MAIN(registerAll)
