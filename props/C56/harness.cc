// C56 -- Ipc::OneToOneUniQueue + QueueReader: FIFO, no loss/duplication, no lost wake-up (E-sched).
//
// Real src/ipc/Queue.{h,cc} compiled against the scheduler-controlled atomic.  One producer
// process and one consumer process, as the callers in DiskIO/IpcIo/IpcIoFile.cc use the API:
//   producer: for each item: push(value, &reader) (retry later when Full is thrown); when push
//             returns true it sends a notification (out-of-band message = a harness counter);
//   consumer: pop(value, &reader) until it returns false; then it is idle until a notification
//             arrives; on a notification: reader.clearSignal(), pop until empty again.  The
//             reader state is shared by several queues in Squid, so the consumer may also be
//             woken by somebody else's notification ("foreign wake-up", generated, bounded): it
//             then does exactly the same clearSignal() + pop loop.
// Oracle (from the statement, not from the code):
//   * the popped sequence is a prefix of the pushed sequence at all times and equal at the end;
//   * when the consumer goes idle, no completed push may be unconsumed unless a notification
//     is pending;
//   * a push that returns while the consumer is idle with no notification pending must return
//     "notify";
//   * the run never ends/deadlocks with the consumer idle, items queued, no notification pending.
// Liveness under unfair schedules is not claimed.
#include "squid.h"
#include "ipc/Queue.h"

#include "sched/sched_case.h"

#include <new>

namespace {

struct Item {
    uint32_t v;
};

struct Params {
    unsigned capacity = 1;
    unsigned items = 1;
    unsigned itemSize = sizeof(Item);   ///< theMaxItemSize (>= sizeof(Item))
    std::vector<uint8_t> foreign;       ///< per idle period: non-zero = the consumer is woken by a foreign notification
};

struct Stats {
    unsigned fullRetries = 0;
    unsigned notifications = 0;
    unsigned idlePeriods = 0;
    unsigned foreignWakeups = 0;
    unsigned pushWhileIdle = 0;
    unsigned popped = 0;
    unsigned stalePending = 0; ///< consumer went idle with a notification already pending
};

struct World {
    std::vector<unsigned char> qmem;
    alignas(64) unsigned char rmem[sizeof(Ipc::QueueReader)];
    Ipc::OneToOneUniQueue *q = nullptr;
    Ipc::QueueReader *reader = nullptr;
    const Params &p;
    // ground truth, updated only at call returns
    unsigned pushedDone = 0;   ///< pushes that returned
    unsigned poppedDone = 0;
    unsigned pending = 0;      ///< notifications sent and not yet received
    bool consumerIdle = false;
    bool producerDone = false;
    Stats st;

    explicit World(const Params &params) : p(params)
    {
        qmem.assign(static_cast<size_t>(Ipc::OneToOneUniQueue::Items2Bytes(p.itemSize, static_cast<int>(p.capacity))) + 64, 0);
        q = new (qmem.data()) Ipc::OneToOneUniQueue(p.itemSize, static_cast<int>(p.capacity));
        memset(rmem, 0, sizeof rmem);
        reader = new (rmem) Ipc::QueueReader();
    }

    std::string state() const
    {
        return "pushed=" + std::to_string(pushedDone) + " popped=" + std::to_string(poppedDone) + " pending_notifications=" + std::to_string(pending) +
               " consumer_idle=" + std::to_string(consumerIdle);
    }

    void producer()
    {
        for (unsigned i = 0; i < p.items; ++i) {
            Item it{1000 + i};
            for (;;) {
                bool notify = false;
                try {
                    notify = q->push(it, reader);
                } catch (const Ipc::OneToOneUniQueue::Full &) {
                    ++st.fullRetries;
                    if (consumerIdle && !pending)
                        Sched::failRun("queue-full-consumer-asleep", "push found the queue full while the consumer is idle without a pending notification: " + state());
                    Sched::yieldBlocked(); // "come back later"
                    continue;
                }
                ++pushedDone;
                if (consumerIdle) {
                    ++st.pushWhileIdle;
                    if (!pending && !notify)
                        Sched::failRun("push-did-not-request-wakeup", "push #" + std::to_string(i) + " returned false while the consumer is idle and no notification is pending: " + state());
                }
                if (notify) {
                    ++pending;
                    ++st.notifications;
                }
                Sched::point(); // the notification (if any) is on its way; others may run
                break;
            }
        }
        producerDone = true;
        Sched::point();
    }

    void consumer()
    {
        size_t idleNo = 0;
        for (;;) {
            Item it{0};
            while (q->pop(it, reader)) {
                const uint32_t expected = 1000 + poppedDone;
                if (it.v != expected)
                    Sched::failRun(it.v < expected && it.v >= 1000 ? "duplicate-or-reordered-item" : "wrong-item",
                                   "popped " + std::to_string(it.v) + " but expected " + std::to_string(expected) + ": " + state());
                if (poppedDone >= pushedDone + 1) // at most one push may be in flight past its publication
                    Sched::failRun("popped-unpushed-item", state());
                ++poppedDone;
                ++st.popped;
                Sched::point();
            }
            // pop() returned false after block(): the consumer goes idle
            consumerIdle = true;
            ++st.idlePeriods;
            if (pending) ++st.stalePending;
            if (pushedDone > poppedDone && !pending)
                Sched::failRun("idle-while-items-remain", "consumer went idle with completed pushes unconsumed and no notification pending: " + state());
            Sched::point();
            const bool foreign = idleNo < p.foreign.size() && p.foreign[idleNo];
            ++idleNo;
            if (foreign) {
                ++st.foreignWakeups; // somebody else's notification for the shared reader
            } else {
                while (!pending) {
                    if (producerDone) {
                        if (pushedDone != poppedDone)
                            Sched::failRun("lost-items-at-end", "producer finished, consumer idle, nothing pending: " + state());
                        return;
                    }
                    Sched::yieldBlocked();
                }
                --pending;
            }
            consumerIdle = false;
            reader->clearSignal();
        }
    }
};

vs::Exec execute(const Params &p, Sched::Strategy &strategy, Stats *statsOut = nullptr)
{
    World w(p);
    std::vector<std::function<void()>> bodies;
    bodies.push_back([&w]() { w.producer(); });
    bodies.push_back([&w]() { w.consumer(); });
    vs::Exec e;
    Sched::Limits lim;
    lim.maxSteps = 5000;
    e.outcome = Sched::run(bodies, strategy, lim);
    if (statsOut) *statsOut = w.st;
    if (e.outcome.failed) {
        e.ok = false;
        e.sig = e.outcome.sig;
        e.detail = e.outcome.detail + " (in " + (e.outcome.failedIn == 0 ? "producer" : "consumer") + ")";
        return e;
    }
    if (e.outcome.stuck) {
        // the producer waits for room and the consumer waits for a notification that nobody will send
        if (w.consumerIdle && !w.pending && w.pushedDone > w.poppedDone) {
            e.ok = false;
            e.sig = "deadlock-consumer-asleep-with-items";
            e.detail = w.state();
        } else {
            e.inconclusive = true;
        }
        return e;
    }
    if (e.outcome.stepLimit) {
        e.inconclusive = true;
        return e;
    }
    if (w.poppedDone != p.items || w.pushedDone != p.items) {
        e.ok = false;
        e.sig = "not-all-items-delivered";
        e.detail = w.state();
    }
    return e;
}

void showParams(vp::Writer &w, const Params &p)
{
    w.u("capacity", p.capacity).u("items", p.items).u("item_size", p.itemSize);
    w.s("foreign_wakeups", vs::joinNums(p.foreign));
}

Params parseParams(const vp::Reader &r)
{
    Params p;
    p.capacity = static_cast<unsigned>(r.u("capacity"));
    p.items = static_cast<unsigned>(r.u("items"));
    p.itemSize = static_cast<unsigned>(r.u("item_size"));
    if (p.itemSize < sizeof(Item)) p.itemSize = sizeof(Item);
    if (!p.capacity) p.capacity = 1;
    p.foreign = vs::splitNums<uint8_t>(r.s("foreign_wakeups"));
    return p;
}

rc::Gen<Params> genParams(unsigned maxCapacity, unsigned extraItems, unsigned maxForeign)
{
    return rc::gen::exec([=]() {
        Params p;
        p.capacity = *vp::range<unsigned>(1, maxCapacity);
        p.items = *vp::range<unsigned>(1, p.capacity + extraItems);
        p.itemSize = *vp::range<int>(0, 3) ? sizeof(Item) : 12;
        const size_t n = *vp::range<size_t>(0, maxForeign);
        p.foreign = *rc::gen::container<std::vector<uint8_t>>(n, rc::gen::element<uint8_t>(0, 1));
        return p;
    });
}

void labelStats(vp::Ctx &ctx, const Stats &st, bool preempted)
{
    if (preempted) ctx.label("preempted");
    if (st.fullRetries) ctx.label("queue-full-retry");
    if (st.notifications) ctx.label("notified");
    if (st.pushWhileIdle) ctx.label("push-while-consumer-idle");
    if (st.stalePending) ctx.label("idle-with-notification-already-pending");
    if (st.foreignWakeups) ctx.label("foreign-wakeup");
    if (st.idlePeriods >= 2) ctx.label("idle-twice-or-more");
    if (preempted && st.idlePeriods >= 2 && st.pushWhileIdle) {
        ctx.label("nontrivial");
        ctx.nontrivial();
    }
}

// ------------------------------------------------------------------ random

struct Case {
    Params p;
    vs::Schedule sched;
};

std::string show(const Case &c)
{
    vp::Writer w;
    showParams(w, c.p);
    vs::showSchedule(w, c.sched);
    return w.str();
}

Case parse(const std::string &text)
{
    const vp::Reader r(text);
    Case c;
    c.p = parseParams(r);
    c.sched = vs::parseSchedule(r);
    return c;
}

rc::Gen<Case> gen()
{
    return rc::gen::exec([]() {
        Case c;
        c.p = *genParams(4, 2, 3);
        c.sched = *vs::genSchedule(2, 90, 0);
        return c;
    });
}

vp::Verdict check(const Case &c, vp::Ctx &ctx)
{
    const auto strategy = vs::makeStrategy(c.sched);
    Stats st;
    const vs::Exec e = execute(c.p, *strategy, &st);
    ctx.label(c.sched.kind ? "schedule-pct" : "schedule-choices");
    if (e.inconclusive) { ctx.excluded("execution-abandoned"); return vp::pass(); }
    labelStats(ctx, st, e.outcome.preemptions > 0);
    return e.ok ? vp::pass() : vp::fail(e.sig, e.detail);
}

// ------------------------------------------------------------------ dfs / exhaustive

struct DfsCase {
    Params p;
    unsigned bound = 3;
    uint64_t maxExec = 30000;
};

std::string showDfs(const DfsCase &c)
{
    vp::Writer w;
    showParams(w, c.p);
    w.u("preemption_bound", c.bound).u("max_executions", c.maxExec);
    return w.str();
}

DfsCase parseDfs(const std::string &text)
{
    const vp::Reader r(text);
    DfsCase c;
    c.p = parseParams(r);
    c.bound = static_cast<unsigned>(r.u("preemption_bound"));
    c.maxExec = r.u("max_executions");
    return c;
}

rc::Gen<DfsCase> genDfs()
{
    return rc::gen::exec([]() {
        DfsCase c;
        c.p = *genParams(3, 2, 2);
        c.bound = 3;
        c.maxExec = 30000;
        return c;
    });
}

vp::Verdict explore(const Params &p, unsigned bound, uint64_t maxExec, vp::Ctx &ctx, vs::Explored &ex, bool labels)
{
    Stats sum;
    ex = vs::exploreAll([&](Sched::Strategy &s) {
        Stats st;
        const vs::Exec e = execute(p, s, &st);
        sum.fullRetries += st.fullRetries;
        sum.pushWhileIdle += st.pushWhileIdle;
        sum.stalePending += st.stalePending;
        sum.foreignWakeups += st.foreignWakeups;
        sum.notifications += st.notifications;
        if (st.idlePeriods >= 2) sum.idlePeriods = 2;
        return e;
    }, bound, 0, maxExec);
    if (ex.executions > 1) ctx.evaluations += ex.executions - 1;
    if (ex.diverged) return vp::fail("harness-nondeterministic", "DFS prefix replay diverged");
    if (labels) {
        ctx.label(ex.complete ? "dfs-space-completed" : "dfs-space-truncated");
        if (ex.inconclusive) ctx.label("dfs-had-abandoned-executions");
        labelStats(ctx, sum, ex.preempted > 0);
    }
    if (ex.failed) return vp::fail(ex.sig, ex.detail);
    return vp::pass();
}

vp::Verdict checkDfs(const DfsCase &c, vp::Ctx &ctx)
{
    if (vs::pastBudget()) { ctx.excluded("budget-exhausted-before-exploration"); return vp::pass(); }
    vs::Explored ex;
    return explore(c.p, c.bound, c.maxExec, ctx, ex, true);
}

/// thorough tier: every (capacity <= maxCap, items <= capacity+extra, foreign wake-up vector of
/// length <= maxForeign) x every schedule up to the pre-emption bound
struct ExhCase {
    unsigned maxCap = 2, extra = 1, maxForeign = 2, bound = 4;
};

std::string showExh(const ExhCase &c)
{
    vp::Writer w;
    w.u("max_capacity", c.maxCap).u("extra_items", c.extra).u("max_foreign", c.maxForeign).u("preemption_bound", c.bound);
    return w.str();
}

ExhCase parseExh(const std::string &text)
{
    const vp::Reader r(text);
    ExhCase c;
    c.maxCap = static_cast<unsigned>(r.u("max_capacity"));
    c.extra = static_cast<unsigned>(r.u("extra_items"));
    c.maxForeign = static_cast<unsigned>(r.u("max_foreign"));
    c.bound = static_cast<unsigned>(r.u("preemption_bound"));
    return c;
}

vp::Verdict checkExh(const ExhCase &c, vp::Ctx &ctx)
{
    const long shard = vs::envInt("VP_SHARD", 0), shards = std::max(1L, vs::envInt("VP_SHARDS", 1));
    const double deadline = vs::budgetDeadline() > 0 ? vs::budgetDeadline() : vp::nowS() + 3600; // relative to process start
    uint64_t no = 0, visited = 0;
    bool complete = true;
    for (unsigned cap = 1; cap <= c.maxCap; ++cap) {
        for (unsigned items = 1; items <= cap + c.extra; ++items) {
            for (unsigned flen = 0; flen <= c.maxForeign; ++flen) {
                for (unsigned bits = 0; bits < (1u << flen); ++bits) {
                    if (flen && !(bits >> (flen - 1))) continue; // trailing zeros = shorter vector, already covered
                    if (static_cast<long>(no++ % static_cast<uint64_t>(shards)) != shard) continue;
                    if (vp::nowS() > deadline) { complete = false; continue; }
                    Params p;
                    p.capacity = cap;
                    p.items = items;
                    for (unsigned i = 0; i < flen; ++i) p.foreign.push_back((bits >> i) & 1);
                    vs::Explored ex;
                    const vp::Verdict v = explore(p, c.bound, UINT64_MAX, ctx, ex, false);
                    ++visited;
                    if (!v.ok) {
                        vp::Writer w;
                        showParams(w, p);
                        return vp::fail(v.sig, v.detail + " params: " + vp::esc(w.str()));
                    }
                    if (!ex.complete) complete = false;
                }
            }
        }
    }
    ctx.labels["configurations-visited"] += visited;
    ctx.label(complete ? "space-completed" : "space-incomplete");
    if (complete) ctx.nontrivial();
    return vp::pass();
}

void registerAll()
{
    vp::add<Case>("random", gen(), check, show, parse, 6.0);
    vp::add<DfsCase>("dfs", genDfs(), checkDfs, showDfs, parseDfs, 4.0);
    vp::add<ExhCase>("exhaustive", rc::gen::just(ExhCase()), checkExh, showExh, parseExh, 1.0);
}

} // namespace

VP_MAIN(registerAll)
