"""C18 Collapsed forwarding: one upstream fetch, identical copies."""
import threading
import time

from hypothesis import strategies as st

from vlib.e2e import client, dnsstub, httpref, origin as originmod
from vlib.e2e.env import ProxyEnv
from vlib.e2e_runner import Result


def strategy(tp):
    return st.fixed_dictionaries({
        "hold": st.sampled_from(["before-head", "before-head", "mid-head", "mid-body"]),
        "hold_at": st.integers(1, 4000),
        "burst": st.integers(2, int(tp.get("max_burst", 12))),
        "offsets_ms": st.lists(st.integers(0, 30), min_size=0, max_size=20),
        "body_len": st.sampled_from([0, 1, 100, 4095, 4096, 4097, 20000, 70000, 200000]),
        "framing": st.sampled_from(["length", "chunked"]),
        "abort": st.one_of(st.none(), st.none(), st.integers(0, 999)),    # permille of the serialized response at which the origin dies
        "segments": st.lists(st.integers(1, 9000), min_size=0, max_size=5),
        "client_close": st.booleans(),
        # the fetch everybody collapses on is a second forwarding attempt (the first address of the host answers with a complete
        # re-forwardable error, which Squid drops before it tries the next address)
        "retry_first": st.sampled_from([None, None, None, 502, 504]),
    })


def setup(ctx):
    smp = (ctx.worker % 2 == 1)
    dns_addr, dns = _setup_retry(ctx)
    env = ProxyEnv(ctx, conf="collapsed_forwarding on\nmaximum_object_size_in_memory 1 MB\n", cache_mem="64 MB", workers=2 if smp else 0, dns=dns_addr)
    env.dns = dns
    env.front = None
    try:
        env.front = originmod.Origin(env.clock, host="127.0.4.%d" % (10 + ctx.worker), port=env.origin.port)
    except OSError:
        pass
    env.smp = smp
    return env


def _setup_retry(ctx):
    w = ctx.worker
    dns_addr = "127.0.55.%d" % (10 + w)
    return dns_addr, dnsstub.DnsStub(dns_addr)


def teardown(env):
    env.dns.stop()
    if env.front:
        env.front.stop()
    env.close()


def _active(env, url):
    c = client.Conn(env.port, timeout=10)
    try:
        c.send(b"GET /squid-internal-mgr/active_requests HTTP/1.1\r\nHost: 127.0.0.1:%d\r\nConnection: close\r\n\r\n" % env.port)
        m = c.read_response(b"GET", timeout=10)
    finally:
        c.close()
    if m is None or m.status != 200:
        return -1
    return m.body.count(("uri " + url + "\n").encode())


def execute(env, sc):
    r = Result()
    path = "/" + env.ns()
    url = env.url(path)
    body = httpref.keyed_stream(path, sc["body_len"])
    ev = "go-" + path
    beh = {"status": 200, "framing": sc["framing"], "headers": [["Cache-Control", "max-age=3600"]], "body_tag": path, "body_len": sc["body_len"],
           "segments": sc["segments"], "chunks": [3000, 17, 9000], "hold_timeout": 40}
    head, enc = originmod.serialize_response(beh, env.clock)
    total = len(head) + len(enc)
    if sc["hold"] == "before-head":
        beh["hold"] = ev
    elif sc["hold"] == "mid-head":
        beh["head_hold"] = ev
        beh["head_hold_bytes"] = min(sc["hold_at"], len(head) - 1)
    else:
        beh["head_hold"] = ev
        beh["head_hold_bytes"] = min(len(head) + sc["hold_at"], total)
    cut = None
    if sc["abort"] is not None:
        cut = total * sc["abort"] // 1000
        if cut < total:
            beh["abort_after"] = cut
        else:
            cut = None
    env.origin.script(path, beh)
    if sc.get("retry_first") and env.front:
        name = "retry-%s.c18.test" % path.strip("/").replace("_", "-")
        env.dns.set(name, [env.front.host, "127.0.0.1"])
        url = "http://%s:%d%s" % (name, env.origin.port, path)
        env.front.script(path, {"status": sc["retry_first"], "reason": "Try The Next One", "framing": "length", "body_b64": "bm8K",
                                "headers": [["Cache-Control", "no-store"]]})
        r.label("retry-first")
    req = ("GET %s HTTP/1.1\r\nHost: x\r\n%s\r\n" % (url, "Connection: close\r\n" if sc["client_close"] else "")).encode()
    conns = []
    results = [None] * (sc["burst"] + 1)
    try:
        leader = client.Conn(env.port, timeout=30)
        conns.append(leader)
        leader.send(req)
        deadline = time.time() + 10
        while env.origin.arrival_count(path) < 1 and time.time() < deadline:
            time.sleep(0.005)
        if env.origin.arrival_count(path) < 1:
            r.inconclusive = "leader request did not reach the origin in time"
            return r
        for i in range(sc["burst"]):
            off = sc["offsets_ms"][i] if i < len(sc["offsets_ms"]) else 0
            if off:
                time.sleep(off / 1000.0)
            c = client.Conn(env.port, timeout=30)
            conns.append(c)
            c.send(req)
        # release the origin only after Squid has registered every request of the burst ("arrive while a fetch is in progress")
        deadline = time.time() + 15
        seen = 0
        while time.time() < deadline:
            seen = _active(env, url)
            if seen >= sc["burst"] + 1:
                break
            time.sleep(0.02)
        if seen < sc["burst"] + 1:
            r.inconclusive = "not all burst requests were registered by the proxy before the deadline"
            env.origin.event(ev).set()
            return r
        arrivals_during = env.origin.arrival_count(path)
        env.origin.event(ev).set()

        def rd(i, c):
            results[i] = c.read_response(b"GET", timeout=30)
        ths = [threading.Thread(target=rd, args=(i, c)) for i, c in enumerate(conns)]
        for t in ths:
            t.start()
        for t in ths:
            t.join()
    finally:
        env.origin.event(ev).set()
        for c in conns:
            c.close()
    arrivals = env.origin.arrival_count(path)
    r.sub_evaluations = len(conns)
    r.label("hold-" + sc["hold"])
    r.label("smp" if env.smp else "single")
    if sc["burst"] >= 5 and sc["hold"] != "mid-body":
        r.nontrivial = True
    retried = bool(sc.get("retry_first") and env.front)
    if retried:
        # The "at most one origin request" clause is asserted for fetches that are one forwarding attempt (the statement's
        # domain).  After a dropped first attempt Squid does not let later requests join the re-forwarded fetch (observed on the
        # pinned tree: each follower starts its own); that is counted, and only the second clause -- complete and identical, or
        # visibly incomplete -- is asserted for this class.
        if arrivals_during > 1 or arrivals > 1:
            r.label("retry-first:followers-did-not-join-the-reforwarded-fetch")
    elif arrivals_during > 1:
        r.fail("second-origin-request-while-fetch-in-progress", "%d origin arrivals while the leader's fetch was held (burst %d)" % (arrivals_during, sc["burst"]))
    if cut is None:
        if arrivals > 1 and not retried:
            r.fail("more-than-one-origin-request-for-collapsed-burst", "%d origin arrivals for a burst of %d (+leader); hold %s" % (arrivals, sc["burst"], sc["hold"]))
    else:
        r.label("origin-aborted")
        r.label("arrivals-after-abort-%d" % min(arrivals, 3))
    ncomplete = 0
    for i, m in enumerate(results):
        who = "leader" if i == 0 else "collapsed client %d" % i
        if m is None or getattr(m, "timed_out", False):
            r.inconclusive = "a client timed out"
            continue
        if getattr(m, "bad", False):
            r.fail("client-message-malformed", who)
            continue
        if m.status is None or m.has("x-squid-error") or m.status != 200:
            r.label("client-error-or-close")
            continue
        if body[:len(m.body)] != m.body:
            r.fail("body-not-a-prefix-of-the-fetched-response", "%s got %d bytes" % (who, len(m.body)))
        elif m.complete and m.framing != "close":
            ncomplete += 1
            if m.body != body:
                r.fail("truncated-body-presented-as-complete", "%s: complete %s-framed message with %d of %d bytes (origin cut at %s of %d)" % (who, m.framing, len(m.body), len(body), cut, total))
        else:
            r.label("client-truncated")
    if ncomplete == len(results):
        r.label("all-complete")
    env.health(r)
    return r
