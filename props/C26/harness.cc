// C26 Content-Length is accepted only when unambiguous.
// Domain : header blocks with 1..4 Content-Length fields (single tokens and comma lists; digit strings with
//          leading zeros, 18..20 digits, values around 2^63, signs, garbage, SP/HTAB/VT/FF around, empty list
//          elements), other fields around them, strict and relaxed parsing, request and reply owners, reply
//          status codes that prohibit Content-Length, an occasional Transfer-Encoding.
// Driving: header.parse(block, len, interpreter) as Http::Message::parseHeader() does (the interpreter gets
//          applyStatusCodeRules() for replies), and Http::ContentLengthInterpreter::checkField() on the
//          trimmed field values in the order HttpHeader::parse() feeds them.
// Oracle : agreement model written from the statement: tokens = comma-separated members (empty members are
//          not values), a token is valid iff it is 1*DIGIT <= INT64_MAX after trimming SP/HTAB; the length is
//          taken (and equals the common decimal) iff all tokens are valid and equal, and more than one
//          token/field only with relaxed parsing; otherwise bad framing (parse failure or
//          conflictingContentLength()) and no Content-Length visible.
#include "squid.h"
#include "http/ContentLengthInterpreter.h"
#include "http/StatusCode.h"
#include "HttpHeader.h"
#include "SquidConfig.h"
#include "SquidString.h"

#include "verif_pbt.h"

#include <climits>

using u128 = unsigned __int128;

// ------------------------------------------------------------------ reference model

enum OutcomeKind { O_ACCEPT, O_BAD, O_NOVALUE };

struct Outcome {
    OutcomeKind kind = O_NOVALUE;
    uint64_t value = 0;
    const char *why = "";
    bool operator==(const Outcome &o) const { return kind == o.kind && (kind != O_ACCEPT || value == o.value); }
};

static std::string trimSet(const std::string &s, const char *set)
{
    size_t a = 0, b = s.size();
    while (a < b && strchr(set, s[a]) && s[a]) ++a;
    while (b > a && strchr(set, s[b - 1]) && s[b - 1]) --b;
    return s.substr(a, b - a);
}

/// 1*DIGIT not above INT64_MAX
static bool decimal(const std::string &s, uint64_t &v, bool &nearLimit)
{
    if (s.empty()) return false;
    u128 acc = 0;
    for (const unsigned char c : s) {
        if (c < '0' || c > '9') return false;
        acc = acc * 10 + (c - '0');
        if (acc > (static_cast<u128>(1) << 70)) acc = static_cast<u128>(1) << 70;
    }
    const u128 lim = static_cast<u128>(INT64_MAX);
    nearLimit = (acc > lim ? acc - lim : lim - acc) <= 2;
    if (acc > lim) return false;
    v = static_cast<uint64_t>(acc);
    return true;
}

struct Shape {
    int fields = 0, tokens = 0;
    bool listSyntax = false, nearLimit = false, oddWhitespace = false;
};

/// \param ws the characters treated as optional whitespace around a token
static Outcome judge(const std::vector<std::string> &values, const bool relaxed, const char *ws, Shape &shape)
{
    Outcome o;
    shape = Shape();
    bool invalid = false, differ = false, have = false;
    uint64_t first = 0;
    auto token = [&](const std::string &raw, const bool inList) {
        const std::string t = trimSet(raw, ws);
        if (t != trimSet(raw, " \t")) shape.oddWhitespace = true;
        if (inList && t.empty()) return; // empty list member: not a value
        ++shape.tokens;
        uint64_t v = 0;
        bool nl = false;
        if (!decimal(t, v, nl)) { invalid = true; if (nl) shape.nearLimit = true; return; }
        if (nl) shape.nearLimit = true;
        if (!have) { have = true; first = v; }
        else if (v != first) differ = true;
    };
    for (const auto &val : values) {
        ++shape.fields;
        if (val.find(',') != std::string::npos) {
            shape.listSyntax = true;
            size_t a = 0;
            for (;;) {
                const size_t c = val.find(',', a);
                token(val.substr(a, c == std::string::npos ? std::string::npos : c - a), true);
                if (c == std::string::npos) break;
                a = c + 1;
            }
        } else
            token(val, false);
    }
    if (invalid) { o.kind = O_BAD; o.why = "invalid-token"; return o; }
    if (differ) { o.kind = O_BAD; o.why = "different-values"; return o; }
    if (!shape.tokens) { o.kind = O_NOVALUE; o.why = "no-token"; return o; }
    o.value = first;
    if (shape.fields == 1 && !shape.listSyntax) { o.kind = O_ACCEPT; return o; }
    if (relaxed) { o.kind = O_ACCEPT; o.why = "equal-duplicates"; return o; }
    o.kind = O_BAD;
    o.why = "equal-duplicates-strict";
    return o;
}

struct Expect {
    std::vector<Outcome> allowed; ///< one entry: determinate; more: the statement leaves it open
    Shape shape;
    bool open = false;
    const char *openWhy = "";
};

static Expect expectFor(const std::vector<std::string> &values, const bool relaxed)
{
    Expect e;
    Shape s2;
    const Outcome a = judge(values, relaxed, " \t", e.shape);
    const Outcome b = judge(values, relaxed, " \t\v\f\r\n", s2);
    e.allowed.push_back(a);
    if (!(a == b)) { e.allowed.push_back(b); e.open = true; e.openWhy = "VT/FF around a token"; }
    // a single field written as a list with one real member ("5,"): strict parsing may or may not take it
    if (!relaxed && e.shape.fields == 1 && e.shape.listSyntax && e.shape.tokens == 1 && a.kind == O_BAD && !strcmp(a.why, "equal-duplicates-strict")) {
        Outcome c;
        c.kind = O_ACCEPT;
        c.value = a.value;
        e.allowed.push_back(c);
        e.open = true;
        e.openWhy = "one-member list in strict mode";
    }
    // Content-Length fields that carry no value at all (","): ignoring them and treating them as bad are both fine
    if (a.kind == O_NOVALUE && e.shape.fields > 0) {
        Outcome c;
        c.kind = O_BAD;
        c.why = "no-token";
        e.allowed.push_back(c);
        e.open = true;
        e.openWhy = "Content-Length list without members";
    }
    return e;
}

/// The list values cut just before the first member that consists of VT/FF (plus SP/HTAB) only, if there is such a
/// member with more members behind it.  Used to give one precise signature to one defect class.
static bool cutAtVtOnlyMember(const std::vector<std::string> &values, std::vector<std::string> &cut)
{
    bool found = false;
    cut.clear();
    for (const auto &untrimmed : values) {
        const std::string val = trimSet(untrimmed, " \t\v\f\r\n"); // HttpHeaderEntry::parse() trims the field value
        std::string out = val;
        if (val.find(',') != std::string::npos) {
            size_t a = 0;
            for (;;) {
                const size_t c = val.find(',', a);
                if (c == std::string::npos) break; // the last member has nothing behind it
                const std::string m = val.substr(a, c - a);
                const bool vtOnly = !m.empty() && m.find_first_of("\v\f") != std::string::npos && trimSet(m, " \t\v\f").empty();
                // strListGetItem() skips leading SP/HTAB/comma, so only the text from the first VT/FF counts
                if (vtOnly) { out = val.substr(0, a) + ","; found = true; break; }
                a = c + 1;
            }
        }
        cut.push_back(out);
    }
    return found;
}

static bool allows(const Expect &e, const OutcomeKind k)
{
    for (const auto &o : e.allowed) if (o.kind == k) return true;
    return false;
}
static bool allowsValue(const Expect &e, const uint64_t v)
{
    for (const auto &o : e.allowed) if (o.kind == O_ACCEPT && o.value == v) return true;
    return false;
}

static void labelExpect(const Expect &e, vp::Ctx &ctx)
{
    const Outcome &a = e.allowed[0];
    ctx.label(std::string("expect:") + (a.kind == O_ACCEPT ? "accept" : a.kind == O_BAD ? "bad" : "novalue") + (*a.why ? std::string(":") + a.why : std::string()));
    if (e.open) { ctx.label("expect:open"); ctx.excluded(std::string("accepted both ways: ") + e.openWhy); }
    if (e.shape.nearLimit) ctx.label("value-within-2-of-2^63");
    if (e.shape.tokens >= 2) ctx.label("tokens>=2");
    if (e.shape.fields >= 2) ctx.label("fields>=2");
    if (e.shape.listSyntax) ctx.label("list-syntax");
    if (e.shape.oddWhitespace) ctx.label("vt-ff-around-token");
    if (e.shape.tokens >= 2 || e.shape.nearLimit) ctx.nontrivial();
}

// ------------------------------------------------------------------ case

struct Case {
    int relaxed = 0;
    int owner = 0;   ///< 0 request, 1 reply
    int status = 200;
    std::vector<std::string> lines; ///< field lines without CRLF, in order
};

static std::string show(const Case &c)
{
    vp::Writer w;
    w.i("relaxed", c.relaxed).i("owner", c.owner).i("status", c.status);
    for (const auto &l : c.lines) w.s("line", l);
    return w.str();
}
static Case parse(const std::string &t)
{
    vp::Reader r(t);
    Case c;
    c.relaxed = r.i("relaxed"); c.owner = r.i("owner"); c.status = r.i("status");
    for (size_t k = 0; k < r.count("line"); ++k) c.lines.push_back(r.s("line", k));
    return c;
}

static bool ieq(const std::string &a, const char *b)
{
    if (a.size() != strlen(b)) return false;
    for (size_t k = 0; k < a.size(); ++k) if (tolower(static_cast<unsigned char>(a[k])) != tolower(static_cast<unsigned char>(b[k]))) return false;
    return true;
}

/// values of the fields named `name` (text after the colon, untrimmed)
static std::vector<std::string> fieldValues(const Case &c, const char *name)
{
    std::vector<std::string> v;
    for (const auto &l : c.lines) {
        const size_t colon = l.find(':');
        if (colon == std::string::npos) continue;
        if (ieq(l.substr(0, colon), name)) v.push_back(l.substr(colon + 1));
    }
    return v;
}

// ------------------------------------------------------------------ HttpHeader::parse

static vp::Verdict checkHeader(const Case &c, vp::Ctx &ctx)
{
    Config.onoff.relaxed_header_parser = c.relaxed;

    const std::vector<std::string> cl = fieldValues(c, "content-length");
    const bool te = !fieldValues(c, "transfer-encoding").empty();
    const bool prohibited = c.owner == 1 && Http::ProhibitsContentLength(static_cast<Http::StatusCode>(c.status));
    const Expect e = expectFor(cl, c.relaxed != 0);
    labelExpect(e, ctx);
    ctx.label(c.owner ? "owner:reply" : "owner:request");
    ctx.label(c.relaxed ? "relaxed" : "strict");
    if (te) ctx.label("with-transfer-encoding");
    if (prohibited) ctx.label("status-prohibits-content-length");

    std::string block;
    for (const auto &l : c.lines) { block += l; block += "\r\n"; }
    block += "\r\n";
    std::vector<char> buf(block.begin(), block.end()); // HttpHeader::parse() may write into its input
    buf.push_back('\0');

    HttpHeader hdr(c.owner ? hoReply : hoRequest);
    Http::ContentLengthInterpreter clen;
    if (c.owner == 1) clen.applyStatusCodeRules(static_cast<Http::StatusCode>(c.status)); // HttpReply::configureContentLengthInterpreter
    const bool parsedOk = hdr.parse(buf.data(), block.size(), clen) != 0;

    std::vector<std::string> visible;
    {
        HttpHeaderPos pos = HttpHeaderInitPos;
        while (const HttpHeaderEntry *he = hdr.getEntry(&pos))
            if (he->id == Http::HdrType::CONTENT_LENGTH) visible.emplace_back(he->value.rawBuf() ? he->value.rawBuf() : "", he->value.size());
    }
    const bool has = hdr.has(Http::HdrType::CONTENT_LENGTH) != 0;
    const int64_t got = hdr.getInt64(Http::HdrType::CONTENT_LENGTH);
    const bool flagged = hdr.conflictingContentLength();

    if (!parsedOk) ctx.label("squid:parse-failure");
    else if (!visible.empty()) ctx.label("squid:length-visible");
    else if (flagged) ctx.label("squid:flagged-conflicting");
    else ctx.label("squid:no-length");

    if (!parsedOk) {
        if (!visible.empty() || has) return vp::fail("hdr:failed-parse-leaves-content-length-visible");
        if (te || prohibited) return vp::pass(); // nothing is taken from Content-Length either way
        if (!allows(e, O_BAD)) {
            // a failure is only expected for bad framing; filler fields are always well-formed
            return vp::fail(e.allowed[0].kind == O_ACCEPT ? "hdr:unambiguous-content-length-rejected" : "hdr:block-without-content-length-value-rejected", show(c));
        }
        return vp::pass();
    }

    if (has != !visible.empty()) return vp::fail("hdr:has()-disagrees-with-entry-list");

    if (te || prohibited) {
        if (!visible.empty()) return vp::fail(te ? "hdr:content-length-visible-next-to-transfer-encoding" : "hdr:content-length-visible-although-prohibited-by-status");
        return vp::pass();
    }

    if (!visible.empty()) {
        // a length is in use: every visible value must be the common decimal
        uint64_t v0 = 0;
        for (size_t k = 0; k < visible.size(); ++k) {
            uint64_t v = 0;
            bool nl = false;
            if (!decimal(visible[k], v, nl)) return vp::fail("hdr:visible-content-length-is-not-a-decimal", vp::esc(visible[k]));
            if (k && v != v0) return vp::fail("hdr:visible-content-lengths-differ");
            v0 = v;
        }
        if (got < 0 || static_cast<uint64_t>(got) != v0) return vp::fail("hdr:getInt64-differs-from-visible-value", std::to_string(got));
        if (flagged) return vp::fail("hdr:flagged-conflicting-but-length-visible");
        if (!allows(e, O_ACCEPT)) {
            const Outcome &a = e.allowed[0];
            std::vector<std::string> cut;
            if (cutAtVtOnlyMember(cl, cut) && allowsValue(expectFor(cut, c.relaxed != 0), v0))
                return vp::fail("hdr:list-members-behind-a-VT-or-FF-only-member-are-ignored", "used " + std::to_string(v0));
            if (a.kind == O_BAD && !strcmp(a.why, "equal-duplicates-strict")) return vp::fail("hdr:equal-duplicates-accepted-in-strict-mode");
            if (a.kind == O_BAD && !strcmp(a.why, "different-values")) return vp::fail("hdr:different-values-accepted", "used " + std::to_string(v0));
            if (a.kind == O_BAD) return vp::fail("hdr:invalid-value-accepted", "used " + std::to_string(v0));
            return vp::fail("hdr:length-from-nothing", "used " + std::to_string(v0));
        }
        if (!allowsValue(e, v0)) return vp::fail("hdr:wrong-length-used", "used " + std::to_string(v0) + " want " + std::to_string(e.allowed[0].value));
        return vp::pass();
    }

    // no Content-Length visible after a successful parse
    if (flagged) {
        if (!allows(e, O_BAD)) return vp::fail(e.allowed[0].kind == O_ACCEPT ? "hdr:unambiguous-content-length-flagged-conflicting" : "hdr:flagged-conflicting-without-any-value");
        return vp::pass();
    }
    if (allows(e, O_NOVALUE)) return vp::pass();
    if (cl.empty()) return vp::pass();
    {
        std::vector<std::string> cut;
        if (cutAtVtOnlyMember(cl, cut) && allows(expectFor(cut, c.relaxed != 0), O_NOVALUE))
            return vp::fail("hdr:list-members-behind-a-VT-or-FF-only-member-are-ignored", "no length used");
    }
    if (allows(e, O_BAD) && !allows(e, O_ACCEPT)) return vp::fail("hdr:bad-content-length-dropped-without-flagging", e.allowed[0].why);
    if (!allows(e, O_BAD)) return vp::fail("hdr:unambiguous-content-length-dropped");
    return vp::fail("hdr:content-length-dropped-without-flagging", e.allowed[0].why);
}

// ------------------------------------------------------------------ the interpreter alone

static vp::Verdict checkInterpreter(const Case &c, vp::Ctx &ctx)
{
    Config.onoff.relaxed_header_parser = c.relaxed;

    // what HttpHeaderEntry::parse() hands over: the value without surrounding whitespace
    std::vector<std::string> cl;
    for (const auto &v : fieldValues(c, "content-length")) cl.push_back(trimSet(v, " \t\v\f\r\n"));
    const Expect e = expectFor(cl, c.relaxed != 0);
    labelExpect(e, ctx);
    ctx.label(c.relaxed ? "relaxed" : "strict");

    Http::ContentLengthInterpreter clen;
    bool aborted = false;
    for (const auto &v : cl) {
        const String field(v.c_str());
        const bool keep = clen.checkField(field);
        // HttpHeader::parse(): a strict parser fails the whole block when a field is not kept
        if (!keep && !c.relaxed) { aborted = true; break; }
    }
    Outcome got;
    if (aborted || clen.sawBad) got.kind = O_BAD;
    else if (clen.sawGood) { got.kind = O_ACCEPT; got.value = static_cast<uint64_t>(clen.value); }
    else got.kind = O_NOVALUE;
    ctx.label(got.kind == O_ACCEPT ? "squid:good" : got.kind == O_BAD ? "squid:bad" : "squid:nothing");

    if (got.kind == O_ACCEPT && clen.value < 0) return vp::fail("cli:negative-value-marked-good");
    for (const auto &o : e.allowed) if (o == got) return vp::pass();
    const Outcome &a = e.allowed[0];
    if (got.kind == O_ACCEPT) {
        std::vector<std::string> cut;
        if (cutAtVtOnlyMember(cl, cut) && allowsValue(expectFor(cut, c.relaxed != 0), got.value))
            return vp::fail("cli:list-members-behind-a-VT-or-FF-only-member-are-ignored", "used " + std::to_string(got.value));
        if (a.kind == O_ACCEPT) return vp::fail("cli:wrong-length", "got " + std::to_string(got.value) + " want " + std::to_string(a.value));
        if (a.kind == O_BAD && !strcmp(a.why, "equal-duplicates-strict")) return vp::fail("cli:equal-duplicates-accepted-in-strict-mode");
        if (a.kind == O_BAD && !strcmp(a.why, "different-values")) return vp::fail("cli:different-values-accepted", "used " + std::to_string(got.value));
        if (a.kind == O_BAD) return vp::fail("cli:invalid-value-accepted", "used " + std::to_string(got.value));
        return vp::fail("cli:length-from-nothing");
    }
    if (got.kind == O_BAD) return vp::fail(a.kind == O_ACCEPT ? "cli:unambiguous-content-length-rejected" : "cli:bad-without-any-value");
    if (cl.empty()) return vp::pass();
    {
        std::vector<std::string> cut;
        if (cutAtVtOnlyMember(cl, cut) && allows(expectFor(cut, c.relaxed != 0), O_NOVALUE))
            return vp::fail("cli:list-members-behind-a-VT-or-FF-only-member-are-ignored", "no length used");
    }
    return vp::fail(a.kind == O_ACCEPT ? "cli:unambiguous-content-length-ignored" : "cli:bad-content-length-not-marked-bad", a.why);
}

// ------------------------------------------------------------------ generators

namespace {

std::string renderDec(u128 v)
{
    if (v == 0) return "0";
    std::string s;
    while (v) { s.insert(s.begin(), static_cast<char>('0' + static_cast<int>(v % 10))); v /= 10; }
    return s;
}

/// one number as text; `base` lets several tokens agree
bool agreeMode = false; ///< generator-local: all tokens of the case are plain and equal

std::string genNumber(const u128 base)
{
    const int kind = agreeMode ? 0 : *rc::gen::weightedElement<int>({{14, 0}, {4, 1}, {1, 2}, {2, 3}, {1, 4}});
    u128 v = base;
    if (kind == 1) v = base + static_cast<u128>(*vp::range<int>(1, 3)); // a different value
    else if (kind == 2) v = (static_cast<u128>(1) << 63) + static_cast<u128>(*vp::range<int>(0, 4)) - 2; // around 2^63
    else if (kind == 3) {
        const u128 special[] = {static_cast<u128>(0), static_cast<u128>(1), static_cast<u128>(UINT32_MAX) + 1 + base, (static_cast<u128>(1) << 64) + base, (static_cast<u128>(1) << 64) * 10 + base, static_cast<u128>(99999999999999999ULL) * 1000 + 999};
        v = special[*vp::range<int>(0, 5)];
    }
    else if (kind == 4) v = base * 10; // shares a prefix
    const int zeros = *rc::gen::weightedElement<int>({{8, 0}, {2, 1}, {1, 3}, {1, 20}});
    return std::string(static_cast<size_t>(zeros), '0') + renderDec(v);
}

std::string genWs()
{
    return *rc::gen::weightedElement<std::string>({{30, ""}, {12, " "}, {6, "\t"}, {3, "  "}, {1, "\v"}, {1, "\f"}, {1, " \v "}});
}

std::string genToken(const u128 base)
{
    const int kind = agreeMode ? 0 : *rc::gen::weightedElement<int>({{36, 0}, {1, 1}, {1, 2}, {1, 3}, {1, 4}, {1, 5}, {1, 6}});
    std::string n = genNumber(base);
    switch (kind) {
    case 1: return *rc::gen::element(std::string("+"), std::string("-"), std::string("- "), std::string("+ ")) + n;
    case 2: return n + *rc::gen::element(std::string("x"), std::string(".0"), std::string("e1"), std::string(";q=1"), std::string(" 5"), std::string("\"\""), std::string("\x80"), std::string("-"), std::string("k"));
    case 3: return *rc::gen::element(std::string("0x"), std::string("x"), std::string("\""), std::string("="), std::string("a")) + n;
    case 4: return *rc::gen::element(std::string(""), std::string("-"), std::string("abc"), std::string("\"5\""), std::string("5 5"), std::string("0x10"), std::string("٥"));
    case 5: return n + " " + n;
    case 6: return "\"" + n + "\"";
    default: return n;
    }
}

std::string genValue(const u128 base)
{
    const int members = *rc::gen::weightedElement<int>({{10, 1}, {4, 2}, {2, 3}, {1, 4}});
    const bool emptyMembers = *vp::range<int>(0, 7) == 0;
    std::string s = genWs();
    for (int k = 0; k < members; ++k) {
        if (k) { s += genWs(); s += ','; s += genWs(); }
        if (emptyMembers && *vp::range<int>(0, 2) == 0) { s += ','; s += genWs(); }
        s += genToken(base);
    }
    if (emptyMembers && *vp::range<int>(0, 1)) { s += genWs(); s += ','; }
    if (!agreeMode && *vp::range<int>(0, 60) == 0) s = *rc::gen::element(std::string(","), std::string(" , "), std::string(",,"), std::string(""), std::string(" "), std::string("\v"), std::string(",\v,"));
    s += genWs();
    return s;
}

std::string caseMix(const std::string &name)
{
    const int how = *vp::range<int>(0, 3);
    if (how == 0) return name;
    std::string s = name;
    const unsigned bits = static_cast<unsigned>(*vp::range<int>(0, 65535));
    for (size_t k = 0; k < s.size(); ++k) {
        if (how == 1) s[k] = static_cast<char>(tolower(static_cast<unsigned char>(s[k])));
        else if (how == 2) s[k] = static_cast<char>(toupper(static_cast<unsigned char>(s[k])));
        else if ((bits >> (k % 16)) & 1) s[k] = static_cast<char>(toupper(static_cast<unsigned char>(s[k])));
    }
    return s;
}

} // namespace

static rc::Gen<Case> genCase()
{
    using namespace rc;
    return gen::exec([]() {
        Case c;
        c.relaxed = *vp::range<int>(0, 1);
        c.owner = *vp::range<int>(0, 1);
        c.status = c.owner ? *gen::weightedElement<int>({{8, 200}, {1, 100}, {1, 101}, {1, 199}, {2, 204}, {1, 206}, {1, 304}, {1, 404}}) : 0;
        const int baseKind = *gen::weightedElement<int>({{3, 0}, {3, 1}, {3, 2}, {2, 3}, {1, 4}});
        const u128 base = baseKind == 0 ? static_cast<u128>(0) : baseKind == 1 ? static_cast<u128>(5) : baseKind == 2 ? static_cast<u128>(*vp::range<int>(0, 100000))
                          : baseKind == 3 ? static_cast<u128>(INT64_MAX) - static_cast<u128>(*vp::range<int>(0, 2)) : static_cast<u128>(1) << 32;
        agreeMode = *vp::range<int>(0, 3) == 0;
        const int nCl = *gen::weightedElement<int>({{6, 1}, {6, 2}, {2, 3}, {1, 4}, {1, 0}});
        static const std::vector<std::string> filler = {"Host: example.com", "X-Foo: 1, 2", "Accept: */*", "Content-Type: text/plain", "Content-Length-X: 7", "X-Content-Length: 9", "Cache-Control: max-age=5", "Connection: close"};
        auto maybeFiller = [&]() { if (*vp::range<int>(0, 2) == 0) c.lines.push_back(*gen::elementOf(filler)); };
        maybeFiller();
        for (int k = 0; k < nCl; ++k) {
            c.lines.push_back(caseMix("Content-Length") + ":" + genValue(base));
            maybeFiller();
        }
        if (*vp::range<int>(0, 19) == 0) {
            const std::string te = caseMix("Transfer-Encoding") + ": " + *gen::element(std::string("chunked"), std::string("gzip"), std::string("Chunked"));
            c.lines.insert(c.lines.begin() + *vp::range<int>(0, static_cast<int>(c.lines.size())), te);
        }
        return c;
    });
}

#ifdef VP_FUZZ
static Case fuzzCase(FuzzedDataProvider &fdp)
{
    Case c;
    const unsigned b0 = fdp.ConsumeIntegral<uint8_t>();
    c.relaxed = b0 & 1;
    c.owner = (b0 >> 1) & 1;
    static const int st[] = {200, 204, 100, 304};
    c.status = c.owner ? st[(b0 >> 2) & 3] : 0;
    std::string rest = fdp.ConsumeRemainingBytesAsString();
    std::string cur;
    auto flush = [&]() { if (c.lines.size() < 6) c.lines.push_back("Content-Length:" + cur); cur.clear(); };
    for (const char ch : rest) {
        if (ch == '\n') { flush(); continue; }
        if (ch == '\0' || ch == '\r') continue; // NUL, CR and folding belong to C25
        cur += ch;
    }
    flush();
    return c;
}
#else
static std::function<Case(FuzzedDataProvider &)> fuzzCase = nullptr;
#endif

static void registerAll()
{
    vp::add<Case>("header_parse", genCase(), checkHeader, show, parse, 2.0, fuzzCase);
    vp::add<Case>("interpreter", genCase(), checkInterpreter, show, parse, 1.0);
}

VP_MAIN(registerAll)
