// C55 -- Ipc::StoreMap exposes only complete, stable entries under any interleaving (E-sched).
//
// Real src/ipc/StoreMap.cc + src/ipc/ReadWriteLock.cc compiled against the scheduler-controlled
// atomic; the three shared tables live in (stub) segments that all logical processes attach to
// through their own Ipc::StoreMap object, as Squid workers do.  2..3 processes run programs of
// writer / reader / deleter / purger / updater transactions over 3 keys (two of them collide on
// the same anchor); the harness plays the slice allocator (free-slice pool fed by the
// StoreMapCleaner callback, as Rock/MemStore do) and keeps its own ground truth:
//   * generation table: a new generation of an anchor starts when openForWriting()/
//     openForUpdating() RETURNS success; writerOf[] is cleared BEFORE the closing call starts;
//   * reader table: (process, anchor, generation, chain snapshot) from openForReading() return
//     until just before closeForReading*();
// Oracle (from the statement):
//   - a successful openForReading(key) returns an anchor whose key is `key`, that is not empty,
//     and whose writer (if any) has promised to only append;
//   - while a reader holds an entry, no slice of the chain it was shown is freed (cleaner
//     callback) and the chain prefix it saw keeps its slices and content tags;
//   - no two writers hold the same anchor; a writer never gets an anchor a reader holds;
//   - a read that STARTS after a deletion of its key RETURNED is never handed a generation that
//     carried that key before the deletion STARTED.
// Preconditions taken from the callers (MemStore.cc, fs/rock/RockSwapDir.cc, Transients.cc):
// writers set the key right after openForWriting(); slices are prepFreeSlice()d, filled, then
// linked (anchor.start / previous.next); freeEntry(fileno) is only called on an entry the
// caller has open; the updater splices a one-slice fresh prefix.
#include "squid.h"
#include "ipc/StoreMap.h"
#include "Store.h"

#include "sched/sched_case.h"

#include <algorithm>
#include <new>

namespace {

using Ipc::StoreMap;
typedef Ipc::StoreMapSliceId SliceId;

const int SliceLimit = 6;
const int KeyCount = 3;

/// keys 0 and 1 hash to the same name (anchor), key 2 to another one
void keyBytes(int k, uint64_t out[2])
{
    out[0] = k == 0 ? 1 : k == 1 ? 1 + SliceLimit : 2;
    out[1] = 0;
}

enum Kind { W, R, F, P, U };

struct Op {
    int kind = R;
    int key = 0;
    int a = 0; ///< W: slices (1..2); R: close mode; U: close mode
    int b = 0; ///< W: mode
};
typedef std::vector<std::vector<Op>> Programs;

struct Params {
    std::vector<Op> initial; ///< W ops executed sequentially during set-up (complete entries)
    Programs progs;
};

struct Stats {
    unsigned writeOpened = 0, writeRefused = 0, readOpened = 0, readRefused = 0, readWhileAppending = 0;
    unsigned deletes = 0, purged = 0, updatesOpened = 0, updatesClosed = 0, aborts = 0, poolEmpty = 0;
    unsigned readAfterDeleteRefused = 0, slicesFreed = 0, overwrites = 0;
};

struct ReaderRec {
    int proc;
    int fileno;
    int gen;
    std::vector<std::pair<SliceId, unsigned>> chain; ///< (slice, content tag) as shown to the reader
};

struct DeleteRec {
    int key;
    int gen; ///< -1: by key; else freeEntry() on this generation
    unsigned start, end;
};

struct World;

struct Cleaner : public Ipc::StoreMapCleaner {
    World *w = nullptr;
    void noteFreeMapSlice(const SliceId sliceId) override;
};

struct World {
    const Params &p;
    StoreMap::Owner *owner = nullptr;
    std::vector<StoreMap *> maps; ///< one per process, all attached to the same segments
    std::vector<Cleaner> cleaners;
    // ground truth
    unsigned clock = 1;
    std::vector<SliceId> pool;
    std::vector<unsigned> sliceTag;
    unsigned nextTag = 1;
    int nextGen = 0;
    std::vector<int> genOf, writerOf;
    std::vector<char> writerAppending;
    std::vector<int> genKey;          ///< per generation: key index or -1 (not set yet)
    std::vector<unsigned> genKeyedAt; ///< per generation: clock when its key was set (0 = not yet)
    /// per generation: closeForUpdating() spliced this generation's chain suffix (everything after
    /// its first slice) into / from another edition, so that suffix is owned by two anchors
    std::vector<char> genSuffixShared;
    std::vector<char> genIsFresh;     ///< per generation: created by openForUpdating() as the fresh edition
    std::vector<unsigned> genUpdateClosedAt; ///< fresh editions: clock when closeForUpdating() returned (0 = not yet)
    std::vector<ReaderRec> readers;
    std::vector<DeleteRec> deletes;
    /// per slice: -1, or the stale generation whose chain suffix (this slice included) was spliced
    /// into a fresh edition by closeForUpdating() since the slice was last handed out: from then
    /// on the slice belongs to two (or more) independently locked anchors -- the known finding
    std::vector<int> suffixOfStaleGen;
    /// chains that reference a slice by the harness's own books: +1 when a writer takes it, +1 for every edition that
    /// closeForUpdating() splices it into, -1 when the map frees it; a sound map never lets this exceed 1
    std::vector<int> sliceRefs;
    Stats st;
    alignas(64) unsigned char fakeEntry[KeyCount][sizeof(StoreEntry)];
    uint64_t keys[KeyCount][2];

    explicit World(const Params &params) : p(params), sliceTag(SliceLimit, 0), genOf(SliceLimit, -1), writerOf(SliceLimit, -1), writerAppending(SliceLimit, 0), suffixOfStaleGen(SliceLimit, -1), sliceRefs(SliceLimit, 0)
    {
        memset(fakeEntry, 0, sizeof fakeEntry);
        for (int k = 0; k < KeyCount; ++k) {
            keyBytes(k, keys[k]);
            entryFor(k)->key = keys[k];
        }
        const SBuf path("verif-c55");
        owner = StoreMap::Init(path, SliceLimit);
        const size_t n = std::max<size_t>(1, p.progs.size());
        cleaners.resize(n);
        for (size_t i = 0; i < n; ++i) {
            maps.push_back(new StoreMap(path));
            cleaners[i].w = this;
            maps[i]->cleaner = &cleaners[i];
        }
        for (SliceId s = SliceLimit - 1; s >= 0; --s) pool.push_back(s);
    }

    ~World()
    {
        for (auto m : maps) delete m;
        delete owner;
    }

    /// StoreMap only reads plain fields of the in-core entry (key, timestamps): a zero-filled
    /// object stands in for it (StoreEntry itself is not under test and is never constructed)
    StoreEntry *entryFor(int k) { return reinterpret_cast<StoreEntry *>(fakeEntry[k]); }
    const cache_key *keyPtr(int k) const { return reinterpret_cast<const cache_key *>(keys[k]); }

    /// VP_TRACE=1: event log on stderr for triage (never affects verdicts)
    void trace(const std::string &msg) const
    {
        static const bool on = getenv("VP_TRACE") != nullptr;
        if (on) fprintf(stderr, "TRACE [%u] P%d %s\n", clock, Sched::self(), msg.c_str());
    }

    std::string where(int me, const char *what, int fileno) const
    {
        return std::string(what) + " by P" + std::to_string(me) + " anchor " + std::to_string(fileno) + " generation " + std::to_string(fileno >= 0 ? genOf[fileno] : -1);
    }

    /// Known finding (closeForUpdating() shares the chain suffix between the stale and the fresh
    /// edition under independent locks): does this reader hold an edition that took part in such
    /// a splice, and is the slice in the shared part of its chain (after the first slice)?  A
    /// reader may have locked the stale anchor before the harness could register it (an updater
    /// inside openForUpdating()), so the per-slice marker alone is not enough.
    bool inUpdateSharedSuffix(const ReaderRec &r, SliceId s) const
    {
        if (suffixOfStaleGen[s] >= 0) return true;
        if (r.gen < 0 || !genSuffixShared[r.gen]) return false;
        for (size_t i = 1; i < r.chain.size(); ++i)
            if (r.chain[i].first == s) return true;
        return false;
    }

    // ---- slice allocator (the caller's job in Squid)
    SliceId takeSlice(int me)
    {
        if (pool.empty()) {
            ++st.poolEmpty;
            if (maps[me]->purgeOne()) ++st.purged;
        }
        if (pool.empty()) return -1;
        const SliceId s = pool.back();
        pool.pop_back();
        trace("takes slice " + std::to_string(s));
        for (const auto &r : readers)
            for (const auto &c : r.chain)
                if (c.first == s)
                    Sched::failRun(inUpdateSharedSuffix(r, s) ? "update-shared-slice-freed-while-reader-holds-entry" : "slice-reused-while-reader-holds-entry",
                                   "slice " + std::to_string(s) + " handed to P" + std::to_string(me) + " while P" + std::to_string(r.proc) + " reads anchor " + std::to_string(r.fileno) + " generation " + std::to_string(r.gen));
        sliceTag[s] = nextTag++;
        suffixOfStaleGen[s] = -1;
        ++sliceRefs[s];
        return s;
    }

    void sliceFreed(SliceId s)
    {
        ++st.slicesFreed;
        trace("frees slice " + std::to_string(s));
        for (const auto &r : readers)
            for (const auto &c : r.chain)
                if (c.first == s)
                    Sched::failRun(inUpdateSharedSuffix(r, s) ? "update-shared-slice-freed-while-reader-holds-entry" : "slice-freed-while-reader-holds-entry",
                                   "slice " + std::to_string(s) + " freed while P" + std::to_string(r.proc) + " reads anchor " + std::to_string(r.fileno) + " generation " + std::to_string(r.gen));
        // A slice that is free already is freed again: after that the allocator hands the same slice to two owners and every
        // later verdict would only describe the wreckage, so the run fails here, at the root event.  Seen when a second updater
        // splices the suffix of an edition whose (shared) suffix slices were freed meanwhile.
        if (std::find(pool.begin(), pool.end(), s) != pool.end())
            Sched::failRun(suffixOfStaleGen[s] >= 0 || sliceRefs[s] >= 1 ? "update-shared-slice-freed-twice" : "slice-freed-twice",
                           "slice " + std::to_string(s) + " freed by P" + std::to_string(Sched::self()) + " although it is free already");
        if (sliceRefs[s] > 0) --sliceRefs[s];
        sliceTag[s] = 0; // suffixOfStaleGen[s] is kept until the slice is handed out again
        pool.push_back(s);
    }

    int newGeneration(int fileno, int key)
    {
        const int g = nextGen++;
        genOf[fileno] = g;
        genKey.push_back(-1);
        genKeyedAt.push_back(0);
        genIsFresh.push_back(0);
        genUpdateClosedAt.push_back(0);
        genSuffixShared.push_back(0);
        (void)key;
        return g;
    }

    void noteWriterOpened(int me, int fileno, const char *what)
    {
        if (writerOf[fileno] >= 0)
            Sched::failRun("two-writers-on-entry", where(me, what, fileno) + " already written by P" + std::to_string(writerOf[fileno]));
        for (const auto &r : readers)
            if (r.fileno == fileno)
                Sched::failRun("writer-opened-entry-held-by-reader", where(me, what, fileno) + " read by P" + std::to_string(r.proc));
        writerOf[fileno] = me;
        writerAppending[fileno] = 0;
    }

    /// takes, fills and links one more slice of the entry being written; false when none is available
    bool appendSlice(int me, int fileno, Ipc::StoreMapAnchor *anchor, SliceId &last)
    {
        const SliceId s = takeSlice(me);
        if (s < 0) return false;
        StoreMap &m = *maps[me];
        m.prepFreeSlice(s);
        m.writeableSlice(fileno, s).size = 100 + static_cast<uint32_t>(s);
        if (last < 0) anchor->start = s;
        else m.writeableSlice(fileno, last).next = s;
        last = s;
        return true;
    }

    void doWrite(int me, const Op &op)
    {
        StoreMap &m = *maps[me];
        sfileno fileno = -1;
        Ipc::StoreMapAnchor *anchor = m.openForWriting(keyPtr(op.key), fileno);
        ++clock;
        trace("openForWriting key " + std::to_string(op.key) + (anchor ? " got anchor " + std::to_string(fileno) : std::string(" refused")));
        if (!anchor) { ++st.writeRefused; return; }
        ++st.writeOpened;
        if (genOf[fileno] >= 0) ++st.overwrites;
        noteWriterOpened(me, fileno, "openForWriting");
        const int g = newGeneration(fileno, op.key);
        Sched::point(); // "I now write this entry"
        anchor->setKey(keyPtr(op.key));
        genKey[g] = op.key;
        genKeyedAt[g] = ++clock;
        const int mode = op.b;
        SliceId last = -1;
        bool ok = appendSlice(me, fileno, anchor, last);
        bool appending = false;
        if (ok && (mode == 1 || mode == 3)) {
            writerAppending[fileno] = 1; // readers are welcome from the moment the call starts
            m.startAppending(fileno);
            appending = true;
            Sched::point();
        }
        for (int i = 1; ok && i < op.a; ++i) ok = appendSlice(me, fileno, anchor, last);
        if (!ok || mode == 2 || mode == 3) {
            ++st.aborts;
            writerOf[fileno] = -1;
            if (!appending) genKey[g] = -2; // the generation ends unpublished
            m.abortWriting(fileno);
            return;
        }
        if (mode == 4) {
            // the writer becomes a reader of what it wrote
            writerOf[fileno] = -1;
            m.switchWritingToReading(fileno);
            readers.push_back(ReaderRec{me, fileno, g, {}});
            walkAndRecord(me, fileno);
            Sched::point();
            verifyAndForget(me, fileno);
            m.closeForReading(fileno);
            return;
        }
        writerOf[fileno] = -1;
        m.closeForWriting(fileno);
    }

    /// follows the chain as a reader does; fails the run on cycles
    void walk(int me, int fileno, std::vector<std::pair<SliceId, unsigned>> &chain)
    {
        const StoreMap &m = *maps[me];
        const Ipc::StoreMapAnchor &a = m.readableEntry(fileno);
        SliceId s = a.start;
        int steps = 0;
        while (s >= 0) {
            if (!m.validSlice(s)) Sched::failRun("reader-saw-invalid-slice-id", std::to_string(s));
            if (++steps > SliceLimit) Sched::failRun("reader-saw-chain-cycle", "anchor " + std::to_string(fileno));
            chain.emplace_back(s, sliceTag[s]);
            s = m.readableSlice(fileno, s).next;
        }
    }

    /// walk() for a registered reader: every slice is added to its record the moment it is shown
    /// (the walk has scheduling points, and the record must protect what was already seen)
    void walkAndRecord(int me, int fileno)
    {
        const StoreMap &m = *maps[me];
        SliceId s = m.readableEntry(fileno).start;
        int steps = 0;
        while (s >= 0) {
            if (!m.validSlice(s)) Sched::failRun("reader-saw-invalid-slice-id", std::to_string(s));
            if (++steps > SliceLimit) Sched::failRun("reader-saw-chain-cycle", "anchor " + std::to_string(fileno));
            for (auto &r : readers)
                if (r.proc == me && r.fileno == fileno) { r.chain.emplace_back(s, sliceTag[s]); break; }
            s = m.readableSlice(fileno, s).next;
        }
    }

    /// the chain prefix shown earlier must still be there, slice by slice, tag by tag
    void verifyAndForget(int me, int fileno)
    {
        std::vector<std::pair<SliceId, unsigned>> now;
        walk(me, fileno, now); // has scheduling points: the reader table may change meanwhile
        size_t idx = readers.size();
        for (size_t i = 0; i < readers.size(); ++i)
            if (readers[i].proc == me && readers[i].fileno == fileno) idx = i;
        if (idx == readers.size()) return;
        const auto &was = readers[idx].chain;
        bool same = now.size() >= was.size();
        for (size_t i = 0; same && i < was.size(); ++i) same = now[i] == was[i];
        if (!same) {
            std::string d = "anchor " + std::to_string(fileno) + " was:";
            for (const auto &c : was) d += " " + std::to_string(c.first) + "#" + std::to_string(c.second);
            d += " now:";
            for (const auto &c : now) d += " " + std::to_string(c.first) + "#" + std::to_string(c.second);
            size_t firstDiff = 0;
            while (firstDiff < was.size() && firstDiff < now.size() && now[firstDiff] == was[firstDiff]) ++firstDiff;
            const bool shared = firstDiff >= 1 && readers[idx].gen >= 0 && genSuffixShared[readers[idx].gen];
            Sched::failRun(shared ? "update-shared-slice-freed-while-reader-holds-entry" : "entry-changed-under-reader", d);
        }
        readers.erase(readers.begin() + static_cast<long>(idx));
    }

    /// checks shared by every successful open for reading; -> the reader's record
    void noteReaderOpened(int me, int key, int fileno, const Ipc::StoreMapAnchor *anchor, unsigned startedAt, const char *what)
    {
        const int g = genOf[fileno];
        if (anchor->key[0] != keys[key][0] || anchor->key[1] != keys[key][1])
            Sched::failRun("reader-got-wrong-key", where(me, what, fileno) + " asked for key " + std::to_string(key) + " got words " + std::to_string(anchor->key[0]) + "," + std::to_string(anchor->key[1]));
        if (g < 0)
            Sched::failRun("reader-opened-never-written-entry", where(me, what, fileno));
        if (writerOf[fileno] >= 0 && !writerAppending[fileno])
            Sched::failRun("reader-opened-entry-being-written", where(me, what, fileno) + " exclusive writer P" + std::to_string(writerOf[fileno]));
        if (writerOf[fileno] >= 0) ++st.readWhileAppending;
        for (const auto &d : deletes) {
            if (d.end == 0 || d.end >= startedAt) continue; // the deletion had not returned when the read started
            const bool sameTarget = d.gen >= 0 ? d.gen == g : (d.key == key && genKeyedAt[g] && genKeyedAt[g] < d.start);
            // known finding: a deletion by key that overlaps closeForUpdating() can be applied to the
            // stale edition only (the deleter resolved the key before the relocation and marked
            // the stale anchor after the updater's last waitingToBeFreed check)
            const bool racedWithUpdate = d.gen < 0 && genIsFresh[g] && (!genUpdateClosedAt[g] || d.start < genUpdateClosedAt[g]);
            if (sameTarget)
                Sched::failRun(racedWithUpdate ? "deleted-entry-opened-after-delete-raced-with-header-update" : "deleted-entry-opened", where(me, what, fileno) + " key " + std::to_string(key) + " deleted during [" + std::to_string(d.start) + "," + std::to_string(d.end) + "], read started at " + std::to_string(startedAt));
        }
        readers.push_back(ReaderRec{me, fileno, g, {}});
        walkAndRecord(me, fileno);
    }

    void doRead(int me, const Op &op)
    {
        StoreMap &m = *maps[me];
        sfileno fileno = -1;
        const unsigned startedAt = ++clock;
        const Ipc::StoreMapAnchor *anchor = m.openForReading(keyPtr(op.key), fileno);
        ++clock;
        if (!anchor) {
            ++st.readRefused;
            for (const auto &d : deletes) if (d.key == op.key && d.end && d.end < startedAt) { ++st.readAfterDeleteRefused; break; }
            return;
        }
        ++st.readOpened;
        noteReaderOpened(me, op.key, fileno, anchor, startedAt, "openForReading");
        Sched::point(); // "I now read this entry": the others run while I hold it
        if (op.a == 2) {
            // a reader that found its hit unusable marks it for deletion while it still holds it
            DeleteRec d{op.key, genOf[fileno], ++clock, 0};
            deletes.push_back(d);
            const size_t di = deletes.size() - 1;
            m.freeEntry(fileno);
            deletes[di].end = ++clock;
            ++st.deletes;
            Sched::point();
        }
        verifyAndForget(me, fileno);
        if (op.a == 1) m.closeForReadingAndFreeIdle(fileno);
        else m.closeForReading(fileno);
    }

    void doFree(int me, const Op &op)
    {
        DeleteRec d{op.key, -1, ++clock, 0};
        deletes.push_back(d);
        const size_t di = deletes.size() - 1;
        maps[me]->freeEntryByKey(keyPtr(op.key));
        deletes[di].end = ++clock;
        ++st.deletes;
        Sched::point();
    }

    void doPurge(int me)
    {
        if (maps[me]->purgeOne()) ++st.purged;
        ++clock;
    }

    void doUpdate(int me, const Op &op)
    {
        StoreMap &m = *maps[me];
        Ipc::StoreMapUpdate update(entryFor(op.key));
        const unsigned startedAt = ++clock;
        trace("openForUpdating key " + std::to_string(op.key) + " starts");
        if (!m.openForUpdating(update, -1)) { ++clock; trace("openForUpdating refused"); return; }
        trace("openForUpdating returned stale anchor " + std::to_string(update.stale.fileNo) + " fresh anchor " + std::to_string(update.fresh.fileNo));
        ++clock;
        ++st.updatesOpened;
        const int staleNo = update.stale.fileNo, freshNo = update.fresh.fileNo;
        // the updater reads the stale edition (with the header-update lock) and writes the fresh one
        noteReaderOpened(me, op.key, staleNo, update.stale.anchor, startedAt, "openForUpdating(stale)");
        noteWriterOpened(me, freshNo, "openForUpdating(fresh)");
        const int g = newGeneration(freshNo, op.key);
        genKey[g] = op.key; // openForUpdating() has set the fresh anchor from the entry
        genKeyedAt[g] = ++clock;
        genIsFresh[g] = 1;
        Sched::point();
        SliceId last = -1;
        const SliceId staleStart = update.stale.anchor->start;
        const bool ok = staleStart >= 0 && appendSlice(me, freshNo, update.fresh.anchor, last);
        if (!ok || op.a == 1) {
            ++st.aborts;
            verifyAndForget(me, staleNo);
            writerOf[freshNo] = -1;
            genKey[g] = -2;
            m.abortUpdating(update);
            return;
        }
        update.fresh.splicingPoint = last;
        update.stale.splicingPoint = staleStart; // the stale prefix (one slice) is replaced
        {
            // everything after the stale prefix is about to be shared with the fresh edition
            const int staleGen = genOf[staleNo];
            genSuffixShared[staleGen] = 1;
            genSuffixShared[g] = 1;
            for (const auto &r : readers)
                if (r.proc == me && r.fileno == staleNo)
                    for (size_t i = 1; i < r.chain.size(); ++i) { suffixOfStaleGen[r.chain[i].first] = staleGen; ++sliceRefs[r.chain[i].first]; }
        }
        verifyAndForget(me, staleNo);
        writerOf[freshNo] = -1;
        trace("closeForUpdating starts");
        m.closeForUpdating(update);
        genUpdateClosedAt[g] = ++clock;
        trace("closeForUpdating returned");
        ++st.updatesClosed;
    }

    void step(int me, const Op &op)
    {
        switch (op.kind) {
        case W: doWrite(me, op); break;
        case R: doRead(me, op); break;
        case F: doFree(me, op); break;
        case P: doPurge(me); break;
        case U: doUpdate(me, op); break;
        default: break;
        }
    }
};

void Cleaner::noteFreeMapSlice(const SliceId sliceId)
{
    w->sliceFreed(sliceId);
}

vs::Exec execute(const Params &p, Sched::Strategy &strategy, Stats *statsOut = nullptr)
{
    World w(p);
    for (const Op &op : p.initial) { // sequential set-up through the same code path
        Op o = op;
        o.kind = W;
        o.b = 0;
        w.doWrite(0, o);
    }
    w.deletes.clear();
    std::vector<std::function<void()>> bodies;
    for (size_t pr = 0; pr < p.progs.size(); ++pr) {
        bodies.push_back([&w, &p, pr]() {
            for (const Op &op : p.progs[pr]) w.step(static_cast<int>(pr), op);
        });
    }
    vs::Exec e;
    Sched::Limits lim;
    lim.maxSteps = 40000; // openKeyless()/purgeOne() scan all anchors
    e.outcome = Sched::run(bodies, strategy, lim);
    if (statsOut) *statsOut = w.st;
    if (e.outcome.failed) {
        e.ok = false;
        e.sig = e.outcome.sig;
        e.detail = e.outcome.detail + " (in P" + std::to_string(e.outcome.failedIn) + ")";
        return e;
    }
    if (!e.outcome.completed()) {
        e.inconclusive = true;
        return e;
    }
    // quiescent sanity: whatever can be opened now is complete, has the right key and an intact chain
    for (int k = 0; k < KeyCount; ++k) {
        sfileno fileno = -1;
        const auto *anchor = w.maps[0]->openForReading(w.keyPtr(k), fileno);
        if (!anchor) continue;
        if (anchor->key[0] != w.keys[k][0] || anchor->key[1] != w.keys[k][1]) { e.ok = false; e.sig = "reader-got-wrong-key"; e.detail = "quiescent read of key " + std::to_string(k); break; }
        if (anchor->writing()) { e.ok = false; e.sig = "reader-opened-entry-being-written"; e.detail = "quiescent read of key " + std::to_string(k) + ": anchor still marked writing"; break; }
        w.maps[0]->closeForReading(fileno);
    }
    return e;
}

// ------------------------------------------------------------------ text form

std::string opText(const Op &o)
{
    switch (o.kind) {
    case W: return "W" + std::to_string(o.key) + "." + std::to_string(o.a) + "." + std::to_string(o.b);
    case R: return "R" + std::to_string(o.key) + "." + std::to_string(o.a);
    case F: return "F" + std::to_string(o.key);
    case P: return "P";
    case U: return "U" + std::to_string(o.key) + "." + std::to_string(o.a);
    default: return "?";
    }
}

Op parseOp(const std::string &t)
{
    Op o;
    if (t.empty()) return o;
    o.kind = t[0] == 'W' ? W : t[0] == 'R' ? R : t[0] == 'F' ? F : t[0] == 'P' ? P : U;
    int v[3] = {0, 0, 0};
    sscanf(t.c_str() + 1, "%d.%d.%d", &v[0], &v[1], &v[2]);
    o.key = std::min(std::max(v[0], 0), KeyCount - 1);
    o.a = v[1];
    o.b = v[2];
    if (o.kind == W) { o.a = std::min(std::max(o.a, 1), 2); o.b = std::min(std::max(o.b, 0), 4); }
    return o;
}

std::string progText(const std::vector<Op> &prog)
{
    std::string s;
    for (size_t i = 0; i < prog.size(); ++i) s += (i ? " " : "") + opText(prog[i]);
    return s;
}

std::vector<Op> parseProg(const std::string &text)
{
    std::vector<Op> prog;
    std::istringstream is(text);
    std::string tok;
    while (is >> tok) prog.push_back(parseOp(tok));
    return prog;
}

void showParams(vp::Writer &w, const Params &p)
{
    w.s("initial", progText(p.initial));
    w.u("procs", p.progs.size());
    for (size_t i = 0; i < p.progs.size(); ++i) w.s("P" + std::to_string(i), progText(p.progs[i]));
}

Params parseParams(const vp::Reader &r)
{
    Params p;
    p.initial = parseProg(r.s("initial"));
    p.progs.resize(static_cast<size_t>(r.u("procs")));
    for (size_t i = 0; i < p.progs.size(); ++i) p.progs[i] = parseProg(r.s("P" + std::to_string(i)));
    return p;
}

rc::Gen<Op> genOp()
{
    return rc::gen::exec([]() {
        Op o;
        o.kind = *rc::gen::weightedElement<int>({{5, W}, {6, R}, {2, F}, {1, P}, {2, U}});
        o.key = *rc::gen::weightedElement<int>({{4, 0}, {2, 1}, {2, 2}});
        if (o.kind == W) { o.a = *vp::range<int>(1, 2); o.b = *rc::gen::weightedElement<int>({{3, 0}, {4, 1}, {1, 2}, {2, 3}, {1, 4}}); }
        else if (o.kind == R) o.a = *rc::gen::weightedElement<int>({{4, 0}, {2, 1}, {2, 2}});
        else if (o.kind == U) o.a = *rc::gen::weightedElement<int>({{3, 0}, {1, 1}});
        return o;
    });
}

rc::Gen<Params> genParams(int maxProcs, int maxOps)
{
    return rc::gen::exec([=]() {
        Params p;
        const int ninit = *vp::range<int>(0, 2);
        for (int i = 0; i < ninit; ++i) {
            Op o;
            o.kind = W;
            o.key = *vp::range<int>(0, KeyCount - 1);
            o.a = *vp::range<int>(1, 2);
            p.initial.push_back(o);
        }
        const int n = *vp::range<int>(2, maxProcs);
        for (int i = 0; i < n; ++i) {
            const int len = *vp::range<int>(1, maxOps);
            std::vector<Op> prog;
            for (int k = 0; k < len; ++k) prog.push_back(*genOp());
            p.progs.push_back(prog);
        }
        return p;
    });
}

void labelStats(vp::Ctx &ctx, const Stats &st, bool preempted)
{
    if (preempted) ctx.label("preempted");
    if (st.readOpened) ctx.label("read-opened");
    if (st.readRefused) ctx.label("read-refused");
    if (st.readWhileAppending) ctx.label("read-while-appending");
    if (st.writeRefused) ctx.label("write-refused");
    if (st.overwrites) ctx.label("overwrote-existing-entry");
    if (st.deletes) ctx.label("deleted");
    if (st.readAfterDeleteRefused) ctx.label("read-refused-after-delete");
    if (st.updatesClosed) ctx.label("update-closed");
    if (st.aborts) ctx.label("aborted");
    if (st.purged) ctx.label("purged");
    if (st.poolEmpty) ctx.label("slice-pool-empty");
    if (st.slicesFreed) ctx.label("slices-freed");
    if (preempted && st.readOpened && (st.writeOpened || st.deletes || st.updatesOpened)) {
        ctx.label("nontrivial");
        ctx.nontrivial();
    }
}

// ------------------------------------------------------------------ random

struct Case {
    Params p;
    vs::Schedule sched;
};

std::string show(const Case &c)
{
    vp::Writer w;
    showParams(w, c.p);
    vs::showSchedule(w, c.sched);
    return w.str();
}

Case parse(const std::string &text)
{
    const vp::Reader r(text);
    Case c;
    c.p = parseParams(r);
    c.sched = vs::parseSchedule(r);
    return c;
}

rc::Gen<Case> gen()
{
    return rc::gen::exec([]() {
        Case c;
        c.p = *genParams(3, 3);
        c.sched = *vs::genSchedule(static_cast<int>(c.p.progs.size()), 160, 0);
        return c;
    });
}

vp::Verdict check(const Case &c, vp::Ctx &ctx)
{
    const auto strategy = vs::makeStrategy(c.sched);
    Stats st;
    const vs::Exec e = execute(c.p, *strategy, &st);
    ctx.label(c.sched.kind ? "schedule-pct" : "schedule-choices");
    if (e.inconclusive) { ctx.excluded("execution-abandoned"); return vp::pass(); }
    labelStats(ctx, st, e.outcome.preemptions > 0);
    return e.ok ? vp::pass() : vp::fail(e.sig, e.detail);
}

// ------------------------------------------------------------------ dfs

struct DfsCase {
    Params p;
    unsigned bound = 2;
    uint64_t maxExec = 30000;
};

std::string showDfs(const DfsCase &c)
{
    vp::Writer w;
    showParams(w, c.p);
    w.u("preemption_bound", c.bound).u("max_executions", c.maxExec);
    return w.str();
}

DfsCase parseDfs(const std::string &text)
{
    const vp::Reader r(text);
    DfsCase c;
    c.p = parseParams(r);
    c.bound = static_cast<unsigned>(r.u("preemption_bound"));
    c.maxExec = r.u("max_executions");
    return c;
}

rc::Gen<DfsCase> genDfs()
{
    return rc::gen::exec([]() {
        DfsCase c;
        c.p = *genParams(3, 2);
        c.bound = 2;
        c.maxExec = 30000;
        return c;
    });
}

vp::Verdict explore(const Params &p, unsigned bound, uint64_t maxExec, vp::Ctx &ctx, vs::Explored &ex, bool labels)
{
    Stats sum;
    ex = vs::exploreAll([&](Sched::Strategy &s) {
        Stats st;
        const vs::Exec e = execute(p, s, &st);
        sum.readOpened += st.readOpened; sum.readRefused += st.readRefused; sum.readWhileAppending += st.readWhileAppending;
        sum.writeOpened += st.writeOpened; sum.writeRefused += st.writeRefused; sum.overwrites += st.overwrites;
        sum.deletes += st.deletes; sum.readAfterDeleteRefused += st.readAfterDeleteRefused; sum.updatesOpened += st.updatesOpened;
        sum.updatesClosed += st.updatesClosed; sum.aborts += st.aborts; sum.purged += st.purged; sum.poolEmpty += st.poolEmpty; sum.slicesFreed += st.slicesFreed;
        return e;
    }, bound, 0, maxExec);
    if (ex.executions > 1) ctx.evaluations += ex.executions - 1;
    if (ex.diverged) return vp::fail("harness-nondeterministic", "DFS prefix replay diverged");
    if (labels) {
        ctx.label(ex.complete ? "dfs-space-completed" : "dfs-space-truncated");
        if (ex.inconclusive) ctx.label("dfs-had-abandoned-executions");
        labelStats(ctx, sum, ex.preempted > 0);
    }
    if (ex.failed) return vp::fail(ex.sig, ex.detail);
    if (ex.knownFailures) return vp::fail(ex.knownSig, ex.knownDetail); // counted as a known-finding hit by the driver
    return vp::pass();
}

vp::Verdict checkDfs(const DfsCase &c, vp::Ctx &ctx)
{
    if (vs::pastBudget()) { ctx.excluded("budget-exhausted-before-exploration"); return vp::pass(); }
    vs::Explored ex;
    return explore(c.p, c.bound, c.maxExec, ctx, ex, true);
}

// ------------------------------------------------------------------ exhaustive (thorough tier)
// 2 processes x 1 transaction each from a fixed list, over 3 initial states, every schedule up to
// pre-emption bound 2.

struct ExhCase {
    unsigned bound = 2;
};

std::string showExh(const ExhCase &c) { vp::Writer w; w.u("preemption_bound", c.bound); return w.str(); }
ExhCase parseExh(const std::string &text) { const vp::Reader r(text); ExhCase c; c.bound = static_cast<unsigned>(r.u("preemption_bound")); return c; }

vp::Verdict checkExh(const ExhCase &c, vp::Ctx &ctx)
{
    const long shard = vs::envInt("VP_SHARD", 0), shards = std::max(1L, vs::envInt("VP_SHARDS", 1));
    const double deadline = vs::budgetDeadline() > 0 ? vs::budgetDeadline() : vp::nowS() + 3600; // relative to process start
    static const char *const txs[] = {"W0.1.0", "W0.2.1", "W0.2.3", "W1.1.0", "W0.1.4", "R0.0", "R0.1", "R0.2", "R1.0", "F0", "P", "U0.0", "U0.1"};
    static const char *const inits[] = {"", "W0.2.0", "W0.1.0 W2.1.0"};
    const size_t nt = sizeof(txs) / sizeof(txs[0]);
    uint64_t no = 0, visited = 0;
    bool complete = true;
    vp::Verdict knownHit = vp::pass();
    for (const char *init : inits)
        for (size_t a = 0; a < nt; ++a)
            for (size_t b = a; b < nt; ++b) {
                if (static_cast<long>(no++ % static_cast<uint64_t>(shards)) != shard) continue;
                if (vp::nowS() > deadline) { complete = false; continue; }
                Params p;
                p.initial = parseProg(init);
                p.progs = {parseProg(txs[a]), parseProg(txs[b])};
                vs::Explored ex;
                const vp::Verdict v = explore(p, c.bound, UINT64_MAX, ctx, ex, false);
                ++visited;
                if (!v.ok && vs::knownSignatures().count(v.sig)) {
                    if (knownHit.ok) {
                        vp::Writer w;
                        showParams(w, p);
                        knownHit = vp::fail(v.sig, v.detail + " params: " + vp::esc(w.str()));
                    }
                    ctx.label("configurations-with-known-finding");
                } else if (!v.ok) {
                    vp::Writer w;
                    showParams(w, p);
                    return vp::fail(v.sig, v.detail + " params: " + vp::esc(w.str()));
                }
                if (!ex.complete) complete = false;
            }
    ctx.labels["configurations-visited"] += visited;
    ctx.label(complete ? "space-completed" : "space-incomplete");
    if (complete) ctx.nontrivial();
    return knownHit; // a pass, or the first known-finding hit (counted by the driver, not a violation)
}

void registerAll()
{
    vp::add<Case>("random", gen(), check, show, parse, 6.0);
    vp::add<DfsCase>("dfs", genDfs(), checkDfs, showDfs, parseDfs, 4.0);
    vp::add<ExhCase>("exhaustive", rc::gen::just(ExhCase()), checkExh, showExh, parseExh, 1.0);
}

} // namespace

VP_MAIN(registerAll)
