// Process-level symbols ipc/StoreMap.cc references but that are not the logic under test.
// * Config / statCounter: only read by the optional paranoid_hit_validation path, which is off
//   by default; zero-filled storage under the variables' (unmangled) names gives
//   paranoid_hit_validation == 0 without linking the configuration subsystem.
// * Store::Root().markedForDeletion(): the real one asks the Transients map
//   ("transients && transients->markedForDeletion(key)"); this harness has no Transients.
// * StoreEntry::lock()/unlock(): reference counting of the in-core entry, irrelevant to the map.
#include "squid.h"
#include "SquidConfig.h"
#include "StatCounters.h"
#include "Store.h"
#include "store/Controller.h"
#include "store_key_md5.h"

alignas(64) unsigned char VerifConfigStorage[sizeof(SquidConfig)] __asm__("Config");
alignas(64) unsigned char VerifStatCounterStorage[sizeof(StatCounters)] __asm__("statCounter");

namespace {
alignas(64) unsigned char ControllerStorage[sizeof(Store::Controller)];
}

Store::Controller &
Store::Root()
{
    return *reinterpret_cast<Store::Controller *>(ControllerStorage);
}

bool
Store::Controller::markedForDeletion(const cache_key *) const
{
    return false; // no Transients in this harness
}

void StoreEntry::lock(const char *) {}
int StoreEntry::unlock(const char *) { return 0; }
std::ostream &operator <<(std::ostream &os, const StoreEntry &) { return os << "e:verif"; }

const char *
storeKeyText(const cache_key *key)
{
    static char buf[40];
    if (!key)
        return "[null_store_key]";
    for (int i = 0; i < 16; ++i)
        snprintf(&buf[i * 2], sizeof(buf) - i * 2, "%02X", key[i]);
    return buf;
}
