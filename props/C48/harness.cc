// C48 Byte-string values behave as independent values.
// Domain : command sequences over a pool of 6 SBufs (construct, copy, move, assign from each other / own
//          substrings / raw pointers into own or foreign storage, append*, push_back, appendf/Printf,
//          consume, chop, trim, toLower/toUpper, setAt, clear, reserve*, rawAppendStart/Finish, c_str,
//          find*/rfind/findFirstOf..., cmp/caseCmp/startsWith/==, copy(), at()) with arguments that include
//          0, npos, out-of-range and > maxSize values.
// Oracle : model = 6 independent std::string values.  After EVERY command every pool member must equal its
//          model string, every query must return the std::string answer, and an operation that throws
//          (size limit, out-of-range access) must leave every value unchanged.  ASan watches the memory.
//
// Caller preconditions respected by the generator:
//  * a moved-from SBuf is only re-assigned (SBuf's move operations document "S is about to be destructed");
//  * the buffer returned by rawAppendStart() is used immediately and rawAppendFinish() gets that pointer and
//    a size <= the anticipated size;
//  * raw (pointer,length) arguments stay inside the pointed-to SBuf's content;
//  * C-string arguments are NUL-terminated; printf formats are non-empty literals.
// Left open by the statement (counted, not judged): the SIGN of case-insensitive / C-string comparisons when
// the first differing bytes include a byte >= 0x80 (the statement names std::string, which has neither).
#include "squid.h"
#include "base/CharacterSet.h"
#include "base/TextException.h"
#include "sbuf/SBuf.h"

#include "verif_pbt.h"
#include "vp_seq.h"

#include <cstring>

// rapidcheck allocates heavily; the default 256 MB ASan quarantine makes that page-fault bound
extern "C" const char *__asan_default_options() { return "quarantine_size_mb=16:malloc_context_size=6"; }

static const int PoolSize = 6;
static const long long NPOS = -1; // serialised form of SBuf::npos

struct Cmd {
    std::string op;
    int d = 0, a = 0;
    long long x = 0, y = 0;
    std::string s;
};
struct Case { std::vector<Cmd> cmds; };

static std::string hexOf(const std::string &s)
{
    static const char *h = "0123456789abcdef";
    std::string o;
    for (unsigned char c : s) { o += h[c >> 4]; o += h[c & 15]; }
    return o;
}
static std::string unhex(const std::string &s)
{
    std::string o;
    for (size_t i = 0; i + 1 < s.size(); i += 2) o += static_cast<char>(vp::hexval(s[i]) * 16 + vp::hexval(s[i + 1]));
    return o;
}

static std::string show(const Case &c)
{
    vp::Writer w;
    for (const auto &m : c.cmds)
        w.s("op", m.op + " " + std::to_string(m.d) + " " + std::to_string(m.a) + " " + std::to_string(m.x) + " " + std::to_string(m.y) + " x" + hexOf(m.s));
    return w.str();
}
static Case parse(const std::string &t)
{
    vp::Reader r(t);
    Case c;
    for (size_t i = 0; i < r.count("op"); ++i) {
        std::istringstream is(r.s("op", i));
        Cmd m;
        std::string hs;
        is >> m.op >> m.d >> m.a >> m.x >> m.y >> hs;
        if (!hs.empty() && hs[0] == 'x') m.s = unhex(hs.substr(1));
        c.cmds.push_back(m);
    }
    return c;
}

// ------------------------------------------------------------------ generator

static std::string textOf(vp::Dice &d)
{
    static const std::string alpha("abAB zZ.\0\t\x80\xe9\xff" "09_", 17);
    std::string s;
    const size_t kind = d.weighted({10, 3, 1});
    size_t n = 0;
    if (kind == 0) n = static_cast<size_t>(d.range(0, 10));
    else if (kind == 1) n = static_cast<size_t>(d.range(11, 70));
    else n = static_cast<size_t>(d.pick<int>({127, 128, 129, 255, 256, 257, 500, 1000}));
    if (n > 12) { // long strings: a short random seed repeated (keeps replay files small enough)
        std::string seed;
        const int sl = static_cast<int>(d.range(1, 5));
        for (int i = 0; i < sl; ++i) seed += alpha[d.range(0, alpha.size() - 1)];
        while (s.size() < n) s += seed;
        s.resize(n);
        return s;
    }
    for (size_t i = 0; i < n; ++i) s += alpha[d.range(0, alpha.size() - 1)];
    return s;
}

static long long posOf(vp::Dice &d)
{
    switch (d.weighted({8, 2, 1, 1, 1})) {
    case 0: return d.range(0, 12);
    case 1: return NPOS;
    case 2: return d.range(13, 300);
    case 3: return d.pick<long long>({0x7fffffffLL, 0x80000000LL, 0xfffffffeLL, 0x0fffffffLL, 0x10000000LL, 0xfffffffLL - 1});
    default: return 0;
    }
}

static const std::vector<std::string> &opTable()
{
    // name, repeated by weight
    static const std::vector<std::string> t = [] {
        const std::vector<std::pair<std::string, int>> w = {
            {"new", 3}, {"newstd", 1}, {"newc", 1}, {"copy", 7}, {"assign", 7}, {"move", 2}, {"assignc", 2}, {"assignraw", 3},
            {"substr", 12}, {"appendc", 5}, {"appendsb", 6}, {"appendraw", 4}, {"push", 3}, {"appendf", 2}, {"printf", 1},
            {"consume", 8}, {"chop", 4}, {"trim", 3}, {"lower", 2}, {"upper", 2}, {"setAt", 5}, {"at", 1}, {"clear", 2},
            {"reserveSpace", 2}, {"reserveCapacity", 2}, {"reserve", 2}, {"rawappend", 5}, {"cstr", 5},
            {"find", 2}, {"findsb", 2}, {"rfind", 2}, {"rfindsb", 2}, {"findset", 3}, {"cmp", 3}, {"casecmp", 2}, {"cmpc", 2},
            {"starts", 2}, {"eq", 2}, {"copyout", 1}};
        std::vector<std::string> r;
        for (const auto &p : w) for (int i = 0; i < p.second; ++i) r.push_back(p.first);
        return r;
    }();
    return t;
}

static Case decode(vp::Dice &d)
{
    Case c;
    const int slots = d.pick<int>({2, 3, 3, 4, 4, 6}); // fewer live slots = denser aliasing
    // a few constructions first: later commands need content to alias
    for (int i = 0; i < 2 && d.more(); ++i) {
        Cmd m;
        m.op = "new"; m.d = i; m.s = textOf(d);
        c.cmds.push_back(m);
    }
    while (d.more() && c.cmds.size() < 60) {
        Cmd m;
        m.op = d.pickFrom(opTable());
        m.d = static_cast<int>(d.range(0, slots - 1));
        m.a = static_cast<int>(d.range(0, slots - 1));
        if (d.chance(1, 8)) m.a = m.d; // self-aliasing
        m.x = posOf(d);
        m.y = posOf(d);
        if (m.op == "new" || m.op == "newstd" || m.op == "newc" || m.op == "assignc" || m.op == "appendc" || m.op == "rawappend" || m.op == "cmpc")
            m.s = textOf(d);
        else if (m.op == "push" || m.op == "setAt" || m.op == "find" || m.op == "rfind" || m.op == "findset")
            m.s = std::string(1, "abAB zZ.\0\t\x80\xe9\xff" "09_"[d.range(0, 16)]) + (m.op == "findset" ? textOf(d).substr(0, 4) : std::string());
        c.cmds.push_back(m);
    }
    return c;
}

// ------------------------------------------------------------------ reference helpers (std::string semantics)

static size_t toPos(long long v) { return v < 0 ? std::string::npos : static_cast<size_t>(v); }
static SBuf::size_type toSPos(long long v) { return v < 0 ? SBuf::npos : static_cast<SBuf::size_type>(v); }
static long long fromSPos(SBuf::size_type v) { return v == SBuf::npos ? NPOS : static_cast<long long>(v); }
static long long fromPos(size_t v) { return v == std::string::npos ? NPOS : static_cast<long long>(v); }

/// SBuf::chop()/substr() as documented: pos npos or > length -> empty; n npos -> to the end; n capped
static std::string refSub(const std::string &s, long long pos, long long n)
{
    const size_t p = toPos(pos);
    if (p == std::string::npos || p > s.size()) return std::string();
    return s.substr(p, toPos(n));
}

static std::string lowerOf(std::string s)
{
    for (auto &ch : s) if (ch >= 'A' && ch <= 'Z') ch = static_cast<char>(ch - 'A' + 'a');
    return s;
}
static std::string upperOf(std::string s)
{
    for (auto &ch : s) if (ch >= 'a' && ch <= 'z') ch = static_cast<char>(ch - 'a' + 'A');
    return s;
}
static int sgn(long long v) { return v < 0 ? -1 : v > 0 ? 1 : 0; }

struct CmpRef { int sign; bool signOpen; };
/// three-way comparison of the first n bytes (n npos = all); case-insensitive on request
static CmpRef refCompare(std::string l, std::string r, bool ci, long long n)
{
    if (n >= 0) { l = l.substr(0, toPos(n)); r = r.substr(0, toPos(n)); }
    if (ci) { l = lowerOf(l); r = lowerOf(r); }
    CmpRef out{sgn(l.compare(r)), false};
    if (ci && out.sign) {
        size_t i = 0;
        while (i < l.size() && i < r.size() && l[i] == r[i]) ++i;
        if (i < l.size() && i < r.size() && ((l[i] & 0x80) || (r[i] & 0x80))) out.signOpen = true;
    }
    return out;
}

static std::string cstrOf(const std::string &s) { return s.substr(0, s.find('\0')); }

// ------------------------------------------------------------------ the check

namespace {
struct World {
    std::vector<SBuf> pool;
    std::vector<std::string> model;
    World() : pool(PoolSize), model(PoolSize) {}

    /// first mismatch between pool and model, or empty
    std::string mismatch() const
    {
        for (int i = 0; i < PoolSize; ++i) {
            const SBuf &b = pool[i];
            const std::string &m = model[i];
            if (b.length() != m.size())
                return "slot " + std::to_string(i) + " length " + std::to_string(b.length()) + " want " + std::to_string(m.size());
            if (b.isEmpty() != m.empty()) return "slot " + std::to_string(i) + " isEmpty";
            if (!m.empty() && memcmp(b.rawContent(), m.data(), m.size()) != 0)
                return "slot " + std::to_string(i) + " content '" + vp::esc(std::string(b.rawContent(), b.length()).substr(0, 40)) + "' want '" + vp::esc(m.substr(0, 40)) + "'";
        }
        return std::string();
    }

    /// whether another non-empty pool member's bytes overlap or touch those of slot d (same blob for sure)
    bool shares(int d) const
    {
        const char *p = pool[d].rawContent();
        const char *pe = p + pool[d].length();
        for (int i = 0; i < PoolSize; ++i) {
            if (i == d || pool[i].isEmpty()) continue;
            const char *q = pool[i].rawContent();
            const char *qe = q + pool[i].length();
            if (p <= qe && q <= pe) return true;
        }
        return false;
    }
};
} // namespace

static vp::Verdict check(const Case &c, vp::Ctx &ctx)
{
    World w;
    std::set<std::string> labels;
    bool sharedWrite = false;
    bool zeroRawAppend = false; // a zero-size rawAppendStart/Finish pair happened (regression class, see replays/C48)
    int step = 0;
    static const CharacterSet none("none", "");

    for (const auto &m : c.cmds) {
        ++step;
        const int d = ((m.d % PoolSize) + PoolSize) % PoolSize;
        const int a = ((m.a % PoolSize) + PoolSize) % PoolSize;
        SBuf &D = w.pool[d];
        SBuf &A = w.pool[a];
        std::string &MD = w.model[d];
        const std::string MA = w.model[a]; // by value: operands are read before the operation changes anything
        const std::string where = m.op + " step " + std::to_string(step);
        const bool isWrite = m.op == "appendc" || m.op == "appendsb" || m.op == "appendraw" || m.op == "push" || m.op == "appendf" ||
                             m.op == "printf" || m.op == "lower" || m.op == "upper" || m.op == "setAt" || m.op == "rawappend" ||
                             m.op == "cstr" || m.op == "assignc" || m.op == "assignraw" || m.op == "reserveSpace" || m.op == "reserveCapacity" || m.op == "reserve";
        if (isWrite && w.shares(d)) { sharedWrite = true; labels.insert("write-while-shared"); labels.insert("shared:" + m.op); }
        bool threw = false, wantThrow = false;
        std::string bad; // query mismatch

        try {
            if (m.op == "new") { D = SBuf(m.s.data(), m.s.size()); MD = m.s; }
            else if (m.op == "newstd") { D = SBuf(m.s); MD = m.s; }
            else if (m.op == "newc") { const std::string z = cstrOf(m.s); D = SBuf(z.c_str()); MD = z; }
            else if (m.op == "copy") { SBuf tmp(A); D = tmp; MD = MA; }
            else if (m.op == "assign") { D = A; MD = MA; }
            else if (m.op == "move") {
                if (a != d) { D = std::move(A); A = SBuf(); MD = MA; w.model[a].clear(); }
                else { SBuf tmp(std::move(A)); A = SBuf(); D = std::move(tmp); }
            }
            else if (m.op == "assignc") {
                if (m.x == NPOS) { const std::string z = cstrOf(m.s); D.assign(z.c_str()); MD = z; }
                else { D.assign(m.s.data(), m.s.size()); MD = m.s; }
            }
            else if (m.op == "assignraw" || m.op == "appendraw") {
                // a (pointer, length) pair inside A's content; A may be D itself
                const size_t off = MA.empty() ? 0 : static_cast<size_t>(m.x < 0 ? 0 : m.x) % (MA.size() + 1);
                const size_t len = static_cast<size_t>(m.y < 0 ? MA.size() : m.y) % (MA.size() - off + 1);
                const std::string piece = MA.substr(off, len);
                if (a == d) labels.insert(m.op + ":own-storage");
                if (m.op == "assignraw") { D.assign(A.rawContent() + off, len); MD = piece; }
                else { D.append(A.rawContent() + off, len); MD += piece; }
            }
            else if (m.op == "substr") { D = A.substr(toSPos(m.x), toSPos(m.y)); MD = refSub(MA, m.x, m.y); }
            else if (m.op == "appendc") {
                if (m.x == NPOS) { const std::string z = cstrOf(m.s); D.append(z.c_str()); MD += z; }
                else { D.append(m.s.data(), m.s.size()); MD += m.s; }
            }
            else if (m.op == "appendsb") { D.append(A); MD += MA; if (a == d) labels.insert("append-self"); }
            else if (m.op == "push") { const char ch = m.s.empty() ? 'x' : m.s[0]; if (m.x & 1) D.push_back(ch); else D.append(ch); MD += ch; }
            else if (m.op == "appendf" || m.op == "printf") {
                // the %s argument may point into D's own storage (documented as supported by the Locker in vappendf/Printf)
                const std::string arg = cstrOf(MA);
                const int num = static_cast<int>(m.y % 100000);
                const char *p = A.c_str();
                const std::string text = arg + "|" + std::to_string(num);
                if (m.op == "appendf") { D.appendf("%s|%d", p, num); MD += text; }
                else { D.Printf("%s|%d", p, num); MD = text; }
                if (a == d) labels.insert(m.op + ":own-storage");
            }
            else if (m.op == "consume") {
                const size_t n = std::min(toPos(m.x), MA.size());
                SBuf head = A.consume(toSPos(m.x));
                w.model[a] = MA.substr(n);
                D = head;
                w.model[d] = MA.substr(0, n);
            }
            else if (m.op == "chop") { D.chop(toSPos(m.x), toSPos(m.y)); MD = refSub(MD, m.x, m.y); }
            else if (m.op == "trim") {
                const bool atB = (m.x & 1) != 0 || m.x == NPOS, atE = (m.y & 1) != 0 || m.y == NPOS;
                D.trim(A, atB, atE);
                std::string r = MD;
                if (atE) while (!r.empty() && MA.find(r.back()) != std::string::npos) r.pop_back();
                if (atB) { size_t i = 0; while (i < r.size() && MA.find(r[i]) != std::string::npos) ++i; r = r.substr(i); }
                MD = r;
            }
            else if (m.op == "lower") { D.toLower(); MD = lowerOf(MD); }
            else if (m.op == "upper") { D.toUpper(); MD = upperOf(MD); }
            else if (m.op == "setAt") {
                const char ch = m.s.empty() ? 'x' : m.s[0];
                const size_t p = toPos(m.x);
                wantThrow = p >= MD.size();
                D.setAt(toSPos(m.x), ch);
                if (!wantThrow) MD[p] = ch;
            }
            else if (m.op == "at") {
                const size_t p = toPos(m.x);
                wantThrow = p >= MD.size();
                const char got = D.at(toSPos(m.x));
                if (!wantThrow && (got != MD[p] || D[static_cast<SBuf::size_type>(p)] != MD[p])) bad = "at()";
            }
            else if (m.op == "clear") { D.clear(); MD.clear(); }
            else if (m.op == "reserveSpace") {
                // beyond maxSize: must throw; small: content unchanged
                const uint64_t n = m.x == NPOS ? SBuf::npos : static_cast<uint64_t>(m.x);
                wantThrow = n > SBuf::maxSize || MD.size() > SBuf::maxSize - n;
                if (!wantThrow && n > 100000) { labels.insert("skipped-huge-allocation"); continue; }
                D.reserveSpace(toSPos(m.x));
            }
            else if (m.op == "reserveCapacity") {
                const uint64_t n = m.x == NPOS ? SBuf::npos : static_cast<uint64_t>(m.x);
                wantThrow = n > SBuf::maxSize;
                if (!wantThrow && n > 100000) { labels.insert("skipped-huge-allocation"); continue; }
                D.reserveCapacity(toSPos(m.x));
            }
            else if (m.op == "reserve") {
                SBufReservationRequirements req;
                req.minSpace = static_cast<SBuf::size_type>((m.x < 0 ? 0 : m.x) % 300);
                req.idealSpace = static_cast<SBuf::size_type>((m.y < 0 ? 0 : m.y) % 600);
                req.maxCapacity = m.y == NPOS ? SBuf::maxSize : static_cast<SBuf::size_type>(m.a * 40 + 1); // lowered limit
                req.allowShared = (m.x & 1) != 0;
                const auto space = D.reserve(req);
                if (space != D.spaceSize()) bad = "reserve() != spaceSize()";
            }
            else if (m.op == "rawappend") {
                // anticipated size x, actual size = |s| capped by x
                const uint64_t n = m.x == NPOS ? SBuf::npos : static_cast<uint64_t>(m.x);
                wantThrow = n > SBuf::maxSize || MD.size() > SBuf::maxSize - n;
                if (!wantThrow && n > 100000) { labels.insert("skipped-huge-allocation"); continue; }
                char *space = D.rawAppendStart(toSPos(m.x));
                if (wantThrow) { (void)space; throw std::logic_error("no-throw"); } // never write into a buffer that cannot exist
                const size_t k = std::min<uint64_t>(m.s.size(), n);
                if (k) memcpy(space, m.s.data(), k);
                D.rawAppendFinish(space, static_cast<SBuf::size_type>(k));
                MD += m.s.substr(0, k);
                if (n == 0) { labels.insert("rawappend:zero"); zeroRawAppend = true; }
            }
            else if (m.op == "cstr") {
                const char *p = D.c_str();
                if (memcmp(p, MD.data(), MD.size()) != 0 || p[MD.size()] != '\0') bad = "c_str()";
            }
            else if (m.op == "find") {
                const char ch = m.s.empty() ? 'x' : m.s[0];
                if (fromSPos(D.find(ch, toSPos(m.x))) != fromPos(m.x == NPOS ? std::string::npos : MD.find(ch, toPos(m.x)))) bad = "find(char)";
            }
            else if (m.op == "findsb") {
                const size_t want = m.x == NPOS ? std::string::npos : MD.find(MA, toPos(m.x));
                if (fromSPos(D.find(A, toSPos(m.x))) != fromPos(want)) bad = "find(SBuf)";
                labels.insert(want == std::string::npos ? "find:miss" : "find:hit");
            }
            else if (m.op == "rfind") {
                const char ch = m.s.empty() ? 'x' : m.s[0];
                if (fromSPos(D.rfind(ch, toSPos(m.x))) != fromPos(MD.rfind(ch, toPos(m.x)))) bad = "rfind(char)";
            }
            else if (m.op == "rfindsb") {
                if (fromSPos(D.rfind(A, toSPos(m.x))) != fromPos(MD.rfind(MA, toPos(m.x)))) bad = "rfind(SBuf)";
            }
            else if (m.op == "findset") {
                const std::string chars = cstrOf(m.s);
                const CharacterSet set("generated", chars.c_str());
                const size_t p = toPos(m.x);
                // the forward searches document "npos start -> npos"; std::string agrees (npos >= size)
                if (fromSPos(D.findFirstOf(set, toSPos(m.x))) != fromPos(MD.find_first_of(chars, p))) bad = "findFirstOf";
                else if (fromSPos(D.findFirstNotOf(set, toSPos(m.x))) != fromPos(MD.find_first_not_of(chars, p))) bad = "findFirstNotOf";
                else if (fromSPos(D.findLastOf(set, toSPos(m.x))) != fromPos(MD.find_last_of(chars, p))) bad = "findLastOf";
                else if (fromSPos(D.findLastNotOf(set, toSPos(m.x))) != fromPos(MD.find_last_not_of(chars, p))) bad = "findLastNotOf";
            }
            else if (m.op == "cmp" || m.op == "casecmp") {
                const bool ci = m.op == "casecmp";
                const CmpRef ref = refCompare(MD, MA, ci, m.x);
                const int got = m.x == NPOS ? (ci ? D.caseCmp(A) : D.cmp(A)) : (ci ? D.caseCmp(A, toSPos(m.x)) : D.cmp(A, toSPos(m.x)));
                if (ref.signOpen) { ctx.excluded("sign of a case-insensitive comparison decided by a byte >= 0x80"); if (!got) bad = m.op; }
                else if (sgn(got) != ref.sign) bad = m.op + " got " + std::to_string(got) + " want sign " + std::to_string(ref.sign);
                labels.insert(ref.sign ? "cmp:differ" : "cmp:equal");
            }
            else if (m.op == "cmpc") {
                // comparison with a C string: the SBuf is read like a C string too (ends at its first NUL)
                const std::string z = cstrOf(m.s);
                const bool ci = (m.y & 1) != 0;
                std::string l = cstrOf(MD), r = z;
                const CmpRef ref = refCompare(l, r, ci, m.x);
                const int got = ci ? D.caseCmp(z.c_str(), toSPos(m.x)) : D.cmp(z.c_str(), toSPos(m.x));
                size_t i = 0;
                while (i < l.size() && i < r.size() && (ci ? lowerOf(l.substr(i, 1)) == lowerOf(r.substr(i, 1)) : l[i] == r[i])) ++i;
                const bool high = (i < l.size() && (l[i] & 0x80)) || (i < r.size() && (r[i] & 0x80));
                if (ref.sign && high) { ctx.excluded("sign of a C-string comparison decided by a byte >= 0x80"); if (!got) bad = "cmp(char*)"; }
                else if (sgn(got) != ref.sign) bad = "cmp(char*) got " + std::to_string(got) + " want sign " + std::to_string(ref.sign);
            }
            else if (m.op == "starts") {
                const bool ci = (m.x & 1) != 0;
                const bool want = ci ? lowerOf(MD).compare(0, MA.size(), lowerOf(MA)) == 0 && MA.size() <= MD.size()
                                     : MD.compare(0, MA.size(), MA) == 0 && MA.size() <= MD.size();
                if (D.startsWith(A, ci ? caseInsensitive : caseSensitive) != want) bad = "startsWith";
                labels.insert(want ? "starts:yes" : "starts:no");
            }
            else if (m.op == "eq") {
                const int s3 = sgn(MD.compare(MA));
                if ((D == A) != (s3 == 0) || (D != A) != (s3 != 0) || (D < A) != (s3 < 0) || (D > A) != (s3 > 0) || (D <= A) != (s3 <= 0) || (D >= A) != (s3 >= 0))
                    bad = "relational operators";
            }
            else if (m.op == "copyout") {
                char buf[64];
                memset(buf, 0x5a, sizeof buf);
                const size_t n = std::min<size_t>(toPos(m.x), 48);
                const auto got = D.copy(buf, static_cast<SBuf::size_type>(n));
                const size_t want = std::min(n, MD.size());
                if (got != want || memcmp(buf, MD.data(), want) != 0 || static_cast<unsigned char>(buf[want]) != 0x5a) bad = "copy()";
                if (D.toStdString() != MD || std::string(D.begin(), D.end()) != MD) bad = "toStdString()/iterators";
            }
            else continue;
        } catch (const TextException &) {
            threw = true;
        } catch (const std::logic_error &) {
            threw = false; // raised by the harness itself: the expected exception did not come
        }
        labels.insert(m.op);
        if (!threw && wantThrow && m.op == "rawappend" && (m.x == NPOS ? 0xffffffffULL : static_cast<uint64_t>(m.x)) + MD.size() >= 0xffffffffULL)
            return vp::fail("sbuf:rawAppendStart-size-plus-length-wraps-no-throw", where + " anticipatedSize=" + std::to_string(m.x) + " length=" + std::to_string(MD.size()));
        if (threw != wantThrow)
            return vp::fail(threw ? "sbuf:unexpected-throw:" + m.op : "sbuf:missing-throw:" + m.op, where);
        if (threw) labels.insert("throws");
        if (!bad.empty()) return vp::fail("sbuf:query-differs:" + m.op, where + " " + bad);
        const std::string mm = w.mismatch();
        if (!mm.empty() && (m.op == "chop" || m.op == "substr") && m.x >= 0 && m.y >= 0 && m.x + m.y > 0xffffffffLL)
            return vp::fail("sbuf:chop-substr-pos-plus-n-wraps-32bit", where + " " + mm);
        // (fixed in /repo: a zero-size rawAppendStart/Finish pair on a shared blob used to truncate the blob's used
        //  size; the class is exercised like any other now and only mentioned in the detail text)
        if (!mm.empty()) {
            // classify: was the damaged slot the target of the operation or a bystander?
            const bool target = mm.rfind("slot " + std::to_string(d) + " ", 0) == 0 || (m.op == "consume" && mm.rfind("slot " + std::to_string(a) + " ", 0) == 0) ||
                                (m.op == "move" && mm.rfind("slot " + std::to_string(a) + " ", 0) == 0);
            return vp::fail(std::string(target ? "sbuf:wrong-result:" : "sbuf:bystander-changed:") + m.op,
                            where + " " + mm + (zeroRawAppend ? " (a zero-size rawAppend happened earlier in this sequence)" : ""));
        }
    }
    for (const auto &l : labels) ctx.label(l);
    if (sharedWrite) ctx.nontrivial();
    return vp::pass();
}

static void registerAll()
{
    vp::guardExit();
    vp::add<Case>("sbuf_values", vp::fromEntropy<Case>(decode, 3.0), check, show, parse, 1.0, vp::fuzzFromEntropy<Case>(decode));
}

VP_MAIN(registerAll)
