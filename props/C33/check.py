"""C33 Error pages never reflect client input unescaped.

A canary  CORE + atoms + TAIL  (atoms = raw and percent-encoded HTML specials) is placed in the request-target path,
query, userinfo, host, the method, request header values and the Basic user name of requests that trigger every error
template Squid can produce here (naturally, and -- for templates with no natural trigger in this set-up -- through
deny_info NAME, plus one harness template that uses every documented %-code).  Oracle, written from the statement:
inside an error page (a response carrying X-Squid-Error) the bytes between every occurrence of CORE and the TAIL that
follows it contain no raw < > " ' and no '&' that does not start one of the character references an HTML escaper emits.
"""
import base64
import os
import re
import shutil
import socket
import stat

from hypothesis import strategies as st

from vlib.common import MIRROR, RUN
from vlib.e2e import client, dnsstub, ftpstub
from vlib.e2e.env import ProxyEnv
from vlib.e2e.squidproc import free_port
from vlib.e2e_runner import Result

ALPHA = "abcdefghijkmnoprstuv0123456789"          # no z q y w: CORE/TAIL prefixes cannot reappear inside the random part
# '&' is always followed by '!' so that a raw '&' can never be mistaken for the start of a character reference
ATOMS = ["<", ">", "\"", "'", "&!", "<b>", "</pre>", "<script>", "\"'", "'&!", "%3C", "%3E", "%22", "%27", "%26!", "%253C", "%3c%3e",
         "<!--", "-->", "=", ";", "(", ")", "\\", "`", "%", "%00", "%0a", "+", "\u00e9<", "\x7f>"]
TCHAR = set("!#$%&'*+-.^_`|~0123456789abcdefghijklmnopqrstuvwxyzABCDEFGHIJKLMNOPQRSTUVWXYZ")
PLACES = ["path", "query", "userinfo", "host", "method", "header", "basic-user"]
HEADER_NAMES = ["X-C33", "User-Agent", "Referer", "Cookie", "Accept-Language", "X-Forwarded-For", "From", "Accept"]

TEMPLATES = sorted(f for f in os.listdir(os.path.join(MIRROR, "errors", "templates")) if f.startswith("ERR_")) \
    if os.path.isdir(os.path.join(MIRROR, "errors", "templates")) else []

NATURAL = ["deny", "custom", "auth-required", "auth-custom", "nxdomain", "connect-fail", "bad-port", "empty-host", "unknown-scheme",
           "bad-version", "bad-header-syntax", "bad-expect", "bad-content-length", "bad-te", "too-big-request", "too-big-reply",
           "only-if-cached", "zero-size", "invalid-resp", "read-error", "never-direct", "icap-fail", "urn", "mgr-denied",
           "internal-static", "ftp-connect-fail", "connect-denied", "origin-form-no-host", "huge-header", "via-loop", "bad-request-line",
           "ftp-listing", "ftp-listing", "ftp-cwd-fail", "ftp-login-fail", "ftp-transfer-fail", "ftp-retr-fail"]
FTP_TRIGGERS = ("ftp-listing", "ftp-cwd-fail", "ftp-login-fail", "ftp-transfer-fail", "ftp-retr-fail")
FTP_PLACES = ["name", "link", "rawline", "dosname", "msg"]

CUSTOM_TEMPLATE = """<!DOCTYPE html><html><head><title>%c</title><style type="text/css"><!-- %l --></style></head><body>
<p>a=[%a]</p><p>A=[%A]</p><p>b=[%b]</p><p>B=[<a href="%B">%B</a>]</p><p>c=[%c]</p><p>D=[%D]</p><p>e=[%e]</p><p>E=[%E]</p>
<p>f=[%f]</p><p>F=[%F]</p><p>g=[%g]</p><p>h=[%h]</p><p>H=[<q>%H</q>]</p><p>i=[%i]</p><p>I=[%I]</p><p>L=[%L]</p><p>m=[%m]</p>
<p>M=[%M]</p><p>o=[%o]</p><p>p=[%p]</p><p>P=[%P]</p><pre>R=[%R]</pre><p>s=[%s]</p><p>t=[%t]</p><p>T=[%T]</p>
<p>U=[<a href="%U">%U</a>]</p><p>u=[<a href='%u'>%u</a>]</p><p>w=[%w]</p><p>W=[<a href="mailto:%w%W">%w</a>]</p><p>x=[%x]</p>
<p>z=[%z]</p><p>Z=[%Z]</p><script type="text/javascript">var m = '%M'; var u = '%u'; var h = "%H";</script>
<div id="sig">%S</div></body></html>
"""

HELPER = "#!/bin/sh\nwhile read user pass; do\n  if [ \"$pass\" = \"bad\" ]; then echo ERR; else echo OK; fi\ndone\n"


def strategy(tp):
    trig = st.one_of(st.sampled_from(NATURAL), st.sampled_from(NATURAL), st.sampled_from(["tpl:" + t for t in TEMPLATES] or ["deny"]))
    return st.fixed_dictionaries({
        "trigger": trig,
        "core": st.text(alphabet=ALPHA, min_size=6, max_size=6),
        "atoms": st.lists(st.sampled_from(ATOMS), min_size=1, max_size=5),
        "places": st.lists(st.sampled_from(PLACES), min_size=1, max_size=4, unique=True),
        "header": st.sampled_from(HEADER_NAMES),
        "version": st.sampled_from(["HTTP/1.1", "HTTP/1.1", "HTTP/1.0"]),
        "post": st.booleans(),
        # where the canary sits in what the FTP server stub sends (FTP triggers only)
        "ftp_places": st.lists(st.sampled_from(FTP_PLACES), min_size=1, max_size=3, unique=True),
    })


# --------------------------------------------------------------------------------------------------------------------
def _bind_dns():
    base = os.getpid() * 7
    for attempt in range(200):
        addr = "127.0.33.%d" % (1 + (base + attempt) % 250)
        try:
            return addr, dnsstub.DnsStub(addr)
        except OSError:
            continue
    raise RuntimeError("no loopback address free for the DNS stub")


def setup(ctx):
    tdir = os.path.join(RUN, "C33-tpl-%d-w%d" % (os.getpid(), ctx.worker))
    shutil.rmtree(tdir, ignore_errors=True)
    os.makedirs(tdir)
    os.chmod(tdir, 0o755)
    src = os.path.join(MIRROR, "errors", "templates")
    for f in os.listdir(src):
        shutil.copy(os.path.join(src, f), os.path.join(tdir, f))
    with open(os.path.join(tdir, "ERR_VERIF_CODES"), "w") as f:
        f.write(CUSTOM_TEMPLATE)
    helper = os.path.join(tdir, "okhelper.sh")
    with open(helper, "w") as f:
        f.write(HELPER)
    os.chmod(helper, 0o755)
    for f in os.listdir(tdir):
        os.chmod(os.path.join(tdir, f), os.stat(os.path.join(tdir, f)).st_mode | stat.S_IROTH | stat.S_IRGRP)
    dns_addr, dns = _bind_dns()
    closed = free_port()
    lines = [
        "error_directory %s" % tdir,
        "auth_param basic program %s" % helper,
        "auth_param basic children 3 startup=1",
        "auth_param basic casesensitive on",
        "auth_param basic realm c33",
        "connect_timeout 3 seconds",
        "request_body_max_size 1 KB",
        "cachemgr_passwd secret shutdown",
        "acl authed proxy_auth REQUIRED",
        "acl p_deny urlpath_regex /deny/",
        "acl p_custom urlpath_regex /custom/",
        "acl p_auth urlpath_regex /auth/",
        "acl p_ac1 urlpath_regex /authcustom/",
        "acl p_ac2 urlpath_regex /authcustom/",
        "acl p_nd urlpath_regex /nodirect/",
        "acl p_icap urlpath_regex /icapfail/",
        "acl p_big urlpath_regex /bigreply/",
        "acl m_connect method CONNECT",
        "deny_info ERR_VERIF_CODES p_custom",
        "deny_info ERR_VERIF_CODES p_ac2",
        "never_direct allow p_nd",
        "reply_body_max_size 100 bytes p_big",
        "icap_enable on",
        "icap_connect_timeout 2 seconds",
        "icap_service svcdown reqmod_precache icap://127.0.0.1:%d/req bypass=off" % closed,
        "adaptation_access svcdown allow p_icap",
        "adaptation_access svcdown deny all",
    ]
    # the query part only shows up in %U when the (documented) privacy default is switched off: odd workers do that
    if ctx.worker % 2 == 1:
        lines.append("strip_query_terms off")
    access = ["http_access deny p_deny", "http_access deny p_custom", "http_access deny m_connect"]
    for i, t in enumerate(TEMPLATES):
        lines.append("acl p_t%d urlpath_regex /tpl-%s/" % (i, t))
        lines.append("deny_info %s p_t%d" % (t, i))
        access.append("http_access deny p_t%d" % i)
    access += ["http_access deny p_auth !authed", "http_access deny p_ac1 authed p_ac2", "http_access allow all"]
    env = ProxyEnv(ctx, conf="\n".join(lines) + "\n", cache_mem="0 MB", dns=dns_addr, access="\n".join(access))
    env.tdir, env.dns, env.closed = tdir, dns, closed
    env.ftp = ftpstub.FtpServer()
    env.strip_query = ctx.worker % 2 == 0
    return env


def teardown(env):
    try:
        env.ftp.stop()
        env.dns.stop()
    finally:
        env.close()
        shutil.rmtree(env.tdir, ignore_errors=True)


# --------------------------------------------------------------------------------------------------------------------
ENTITY = re.compile(rb"&(lt|gt|quot|amp|apos|#[0-9]{1,7}|#x[0-9a-f]{1,6});", re.I)   # what an HTML escaper emits


def unescaped_in(segment):
    """-> description of the first raw HTML special inside a reflected canary, or None"""
    i = 0
    while i < len(segment):
        ch = segment[i:i + 1]
        if ch in (b"<", b">", b"\"", b"'"):
            return "raw %r at offset %d" % (ch.decode(), i)
        if ch == b"&":
            m = ENTITY.match(segment, i)
            if not m:
                return "raw '&' at offset %d" % i
            i = m.end()
            continue
        i += 1
    return None


def judge_page(body, core, tail, r, window):
    """Apply the statement to one error page body. -> (number of reflections judged, [(site, why, context)]).  A reflection is
    CORE followed by TAIL within `window` bytes (6 bytes per canary byte covers every escaping); a CORE whose TAIL was cut off
    by Squid's own URL splitting is followed by template text and cannot be judged."""
    judged = 0
    bad = []
    pos = 0
    while True:
        i = body.find(core, pos)
        if i < 0:
            break
        pos = i + len(core)
        j = body.find(tail, pos, pos + window + len(tail))
        if j < 0:
            r.label("core-without-tail")
            continue
        judged += 1
        why = unescaped_in(body[pos:j])
        if why:
            # where in the page: the only site-specific class so far is the table cell that carries an FTP listing line as it is
            site = ":unparsed-listing-line" if b'<td colspan="5">' in body[max(0, i - 400):i] and b"</td>" not in body[body.rfind(b'<td colspan="5">', 0, i):i] else ""
            bad.append((site, why, body[max(0, i - 60):j + len(tail) + 20]))
    return judged, bad


def canary_for(sc, place):
    core = "zq" + sc["core"]
    tail = "yw" + sc["core"][::-1]
    atoms = list(sc["atoms"])
    if place == "method":
        atoms = [a for a in atoms if all(c in TCHAR for c in a)] or ["'&!"]
    elif place in ("path", "query"):
        atoms = [a for a in atoms if a not in ("%0a", "%00")] or ["<"]      # kept for headers/userinfo only (uri_whitespace strips)
    elif place in ("host", "userinfo"):
        # '/' would end the authority (the canary would be split by URL syntax, not reflected as one string)
        atoms = [a for a in atoms if "/" not in a and "\\" not in a and a not in ("%0a", "%00")] or ["<"]
    return core + "".join(atoms) + tail


def build(env, sc, ns):
    """-> (request bytes, method, origin behaviour or None, dns entries)"""
    t = sc["trigger"]
    places = set(sc["places"])
    oport = env.origin.port
    scheme = "http"
    host = "127.0.0.1"
    port = oport
    prefix = "/" + ns
    method = "POST" if sc["post"] else "GET"
    headers = []
    body = b""
    behaviour = None
    dns = {}
    version = sc["version"]
    reach_origin = t in ("zero-size", "invalid-resp", "read-error", "too-big-reply", "bad-expect", "bad-te", "bad-content-length", "too-big-request",
                         "only-if-cached", "never-direct", "icap-fail", "via-loop", "huge-header", "bad-version", "bad-header-syntax")
    if t == "deny":
        prefix = "/deny/" + ns
    elif t == "custom":
        prefix = "/custom/" + ns
    elif t.startswith("tpl:"):
        prefix = "/tpl-%s/%s" % (t[4:], ns)
    elif t == "auth-required":
        prefix = "/auth/" + ns
        if "basic-user" in places:
            headers.append(("Proxy-Authorization", "Basic " + base64.b64encode((canary_for(sc, "basic-user") + ":bad").encode("latin-1")).decode()))
            places.discard("basic-user")
    elif t == "auth-custom":
        prefix = "/authcustom/" + ns
        user = canary_for(sc, "basic-user") if "basic-user" in places else "user" + sc["core"]
        headers.append(("Proxy-Authorization", "Basic " + base64.b64encode((user + ":good").encode("latin-1")).decode()))
        places.discard("basic-user")
    elif t == "nxdomain":
        host, port = "nx-%s.c33.test" % ns, 80
    elif t == "connect-fail":
        port = env.closed
    elif t == "ftp-connect-fail":
        scheme, port = "ftp", env.closed
    elif t == "unknown-scheme":
        scheme = "foo" + sc["core"]
    elif t == "too-big-request":
        method = "POST"
        body = b"a" * 3000
    elif t == "too-big-reply":
        prefix = "/bigreply/" + ns
        behaviour = {"status": 200, "body_tag": ns, "body_len": 5000, "headers": [["Cache-Control", "no-store"]]}
    elif t == "only-if-cached":
        headers.append(("Cache-Control", "only-if-cached"))
    elif t == "zero-size":
        behaviour = {"no_response": True}
    elif t == "invalid-resp":
        raw = b"\x00\x01\x02 garbage " + canary_for(sc, "header").encode("latin-1") + b"\r\n\r\n"
        behaviour = {"raw_head_b64": base64.b64encode(raw).decode(), "framing": "none", "close": True, "date": False}
    elif t == "read-error":
        behaviour = {"status": 200, "body_tag": ns, "body_len": 100, "abort_after": 9, "abort_rst": True}
    elif t == "never-direct":
        prefix = "/nodirect/" + ns
    elif t == "icap-fail":
        prefix = "/icapfail/" + ns
    elif t == "bad-expect":
        method = "POST"
        headers.append(("Expect", "x" + canary_for(sc, "header")))
    elif t == "bad-te":
        method = "POST"
        headers.append(("Transfer-Encoding", "x" + canary_for(sc, "method")))
    elif t == "bad-content-length":
        method = "POST"
        headers.append(("Content-Length", "12" + canary_for(sc, "header")))
    elif t == "mgr-denied":
        host, port = "127.0.0.1", env.port
        prefix = "/squid-internal-mgr/shutdown"
        headers.append(("Authorization", "Basic " + base64.b64encode((canary_for(sc, "basic-user") + ":wrong").encode("latin-1")).decode()))
    elif t == "internal-static":
        host, port = "127.0.0.1", env.port
        prefix = "/squid-internal-static/" + ns
    elif t == "via-loop":
        headers.append(("Via", "1.1 verifproxy (squid/8.0.0-VCS), 1.1 " + canary_for(sc, "method")))
    elif t == "huge-header":
        headers.append(("X-Pad", canary_for(sc, "header") + "a" * 70000))
    elif t == "bad-version":
        version = "HTTP/2.0" if sc["post"] else "HTTP/1.75"
    elif t in FTP_TRIGGERS:
        scheme, port, method = "ftp", env.ftp.port, "GET"
        places.discard("method")
        places.discard("host")
    # ---- canary placement
    if "method" in places and t != "connect-denied":
        method = "M" + canary_for(sc, "method")
    if "host" in places and t not in ("mgr-denied", "internal-static", "empty-host"):
        host = "a%s.c33.test" % canary_for(sc, "host")
        if t != "nxdomain" and (reach_origin or t in ("connect-fail", "ftp-connect-fail")):
            dns[host] = ["127.0.0.1"]
    path = prefix + "/" + (canary_for(sc, "path") if "path" in places else "p")
    if t in FTP_TRIGGERS:
        path += ";type=i" if t == "ftp-retr-fail" else "/"
    if "query" in places:
        path += "?k=v&c=" + canary_for(sc, "query")
    authority = host
    if "userinfo" in places:
        authority = canary_for(sc, "userinfo") + "@" + host
    if t == "bad-port":
        authority += ":0x" + canary_for(sc, "host") if sc["post"] else ":0"
    elif t == "empty-host":
        authority = ""
    elif not (scheme == "http" and port == 80):
        authority += ":%d" % port
    if t == "urn":
        target = "urn:c33" + sc["core"] + ":" + canary_for(sc, "path")
    elif t == "connect-denied":
        method = "CONNECT"
        target = "%s:443" % (host if "host" in places else "c33-%s.test" % ns)
    elif t == "origin-form-no-host":
        target = path
    else:
        target = "%s://%s%s" % (scheme, authority, path)
    if t == "bad-request-line":
        target = target + " extra" + canary_for(sc, "path")
    lines = ["%s %s %s" % (method, target, version)]
    if t == "origin-form-no-host":
        headers.append(("Host", "a" + canary_for(sc, "host") if "host" in places else ""))
    else:
        lines.append("Host: %s" % (authority.split("@")[-1] or "x"))
    if "header" in places:
        headers.append((sc["header"], canary_for(sc, "header")))
    if "basic-user" in places:
        headers.append(("Proxy-Authorization", "Basic " + base64.b64encode((canary_for(sc, "basic-user") + ":good").encode("latin-1")).decode()))
    if t == "bad-header-syntax":
        lines.append("Bad Name %s: v" % canary_for(sc, "method"))
    for k, v in headers:
        lines.append("%s: %s" % (k, v))
    if method not in ("GET", "CONNECT") and not any(k.lower() in ("content-length", "transfer-encoding") for k, _ in headers):
        if not body:
            body = b"b" * 10
        lines.append("Content-Length: %d" % len(body))
    elif method == "GET":
        body = b""
    lines.append("Connection: close")
    data = ("\r\n".join(lines) + "\r\n\r\n").encode("latin-1") + body
    return data, method, behaviour, dns


def ftp_behaviour(sc):
    """What the FTP stub serves for the FTP triggers: the canary inside a well-formed entry name, a symlink target, a line
    that is not a listing entry, a DOS entry, and multi-line server messages."""
    t = sc["trigger"]
    fp = set(sc.get("ftp_places") or ["name"])
    can = canary_for(sc, "ftp")
    lines = ["-rw-r--r-- 1 u g 5 Jan  1  2020 " + (can if "name" in fp else "plain.txt")]
    if "link" in fp:
        lines.append("lrwxrwxrwx 1 u g 5 Jan  1  2020 lnk -> " + can)
    if "rawline" in fp:
        lines.append("?? " + can)
    if "dosname" in fp:
        lines.append("04-05-70 09:33PM <DIR> " + can.replace(" ", ""))
    beh = {"listing": ("\r\n".join(lines) + "\r\n").encode("latin-1")}
    if "msg" in fp:
        beh["login_msg"] = ["welcome " + can, "logged in"]
        beh["cwd_msg"] = ["note " + can, "directory changed"]
        beh["greeting"] = ["hello " + can, "ready"]
    if t == "ftp-cwd-fail":
        beh["cwd_code"] = 550
    elif t == "ftp-login-fail":
        beh["pass_code"] = 530
    elif t == "ftp-transfer-fail":
        beh["done_code"] = 451
    return beh


def execute(env, sc):
    r = Result()
    ns = env.ns()
    data, method, behaviour, dns = build(env, sc, ns)
    if sc["trigger"] in FTP_TRIGGERS:
        fb = ftp_behaviour(sc)
        env.ftp.script(ns, fb)
        env.ftp.default_behaviour = {k: v for k, v in fb.items() if k in ("greeting", "login_msg", "pass_code")}   # needed before the first path
    for name, addrs in dns.items():
        env.dns.set(name, addrs)
    env.origin.default_behaviour = dict(behaviour) if behaviour else {"status": 404, "reason": "Not Found", "body_b64": "", "framing": "length"}
    try:
        c = client.Conn(env.port, timeout=25)
    except OSError:
        if env.health(r):
            r.inconclusive = "could not connect to the proxy"
        return r
    try:
        c.send(data)
        m = c.read_response(method.encode("latin-1"), timeout=25)
    finally:
        c.close()
    env.origin.default_behaviour = {"status": 404, "reason": "Not Found", "body_b64": "", "framing": "length"}
    if sc["trigger"] in FTP_TRIGGERS:
        env.ftp.forget(ns)
        env.ftp.default_behaviour = {}
        for p in sc.get("ftp_places") or []:
            r.label("ftp-place:" + p)
    r.label("trigger:" + (sc["trigger"] if not sc["trigger"].startswith("tpl:") else "tpl"))
    if m is None or getattr(m, "timed_out", False):
        r.inconclusive = "client timed out"
    elif getattr(m, "bad", False) or m.status is None:
        r.label("unparsable-or-no-response")
    else:
        xerr = [v for k, v in m.headers if k.lower() == b"x-squid-error"]
        if not xerr:
            r.label("not-an-error-page")
        else:
            page = xerr[0].split(b" ")[0].decode("latin-1")
            r.label("page:" + page)
            body = m.body or b""
            core = ("zq" + sc["core"]).encode()
            tail = ("yw" + sc["core"][::-1]).encode()
            judged, bad = judge_page(body, core, tail, r, 6 * len("".join(sc["atoms"])) + 10)
            r.sub_evaluations = max(1, judged)
            if judged:
                r.nontrivial = True
                r.label("reflected")
                r.label("reflected-in:" + page)
                for p in sc["places"]:
                    r.label("reflected-with-place:" + p)
            else:
                r.label("not-reflected")
            seen = set()
            for site, why, ctx in bad:
                if site in seen:
                    continue
                seen.add(site)
                r.fail("client-input-unescaped-in-error-page:" + page + site, "%s; page context: %r; trigger %s places %s %s" % (
                    why, ctx, sc["trigger"], sc["places"], sc.get("ftp_places") if sc["trigger"] in FTP_TRIGGERS else ""))
    env.health(r)
    return r
