// C58 IPC messages round-trip and malformed messages are rejected safely.
// Domain : (a) sequences of typed puts (int, PODs, String, fixed buffers, fd) carried to the reader
//              by the same object / copy construction / assignment / "the wire" (the bytes recvmsg()
//              stores through msg_iov of a prepForReading() message), then the same gets;
//          (b) received raw messages: a prepForReading() message whose data area (type, size field,
//              content) is overwritten exactly as recvmsg() would, followed by generated get sequences.
// Oracle : (a) every get returns what was put, checkType accepts only the stored type, reading past the
//              serialised content throws; (b) bounded-buffer model written from the statement: a get of
//              n bytes at offset o may succeed only if o+n <= min(size field, 4096) and then returns
//              exactly those bytes; otherwise it must throw.  ASan/UBSan are part of the oracle.
// Callers' preconditions kept by the generator: setType() (non-zero kind) precedes every put; a
// receiver abandons a message after its first exception (Ipc::Port::receiveOrIgnore), so a get
// sequence ends at the first throw.
#include "squid.h"
#include "base/TextException.h"
#include "ipc/TypedMsgHdr.h"
#include "SquidString.h"

#include "verif_pbt.h"

#include <climits>
#include <cstddef>
#include <memory>
#include <new>
#include <sys/wait.h>
#include <unistd.h>

// Page faults are very expensive in this sandbox and the default 256 MB quarantine keeps touching fresh
// pages; a small quarantine still catches use-after-free of the objects of the current case.
extern "C" const char *__asan_default_options() { return "quarantine_size_mb=4:thread_local_quarantine_size_kb=64:allocator_release_to_os_interval_ms=-1"; }


/// Whether SIG is listed as an open known finding for this run (--known on the command line, VP_KNOWN for
/// libFuzzer).  The "continue behind a known crashing class" detours are taken only while their signature is
/// listed; otherwise the class is executed like any other input and a sanitizer abort is a violation.
static bool knownOpen(const std::string &sig)
{
    static const std::set<std::string> *known = [] {
        std::string list;
        if (const char *e = getenv("VP_KNOWN")) list = e;
        std::ifstream f("/proc/self/cmdline", std::ios::binary);
        const std::string all((std::istreambuf_iterator<char>(f)), std::istreambuf_iterator<char>());
        std::vector<std::string> args;
        std::string cur;
        for (char ch : all) { if (ch == '\0') { args.push_back(cur); cur.clear(); } else cur += ch; }
        if (!cur.empty()) args.push_back(cur);
        for (size_t i = 0; i + 1 < args.size(); ++i) if (args[i] == "--known") list += "," + args[i + 1];
        return new std::set<std::string>(vp::splitCsv(list));
    }();
    return known->count(sig) > 0;
}

static const size_t Cap = Ipc::TypedMsgHdr::maxSize; // documented capacity of the data buffer

struct Pod24 { int64_t b; int32_t a; char c[12]; }; // no padding: the object representation is the payload
struct Pod1000 { char x[1000]; };
static_assert(sizeof(Pod24) == 24, "Pod24 must be free of padding");

// ------------------------------------------------------------------ helpers

/// what recvmsg() does with the data part of a datagram: at most iov_len bytes are stored at iov_base
static void deliver(Ipc::TypedMsgHdr &rx, const std::string &wire)
{
    rx.prepForReading();
    const size_t n = std::min(wire.size(), static_cast<size_t>(rx.msg_iov[0].iov_len));
    if (n)
        memcpy(rx.msg_iov[0].iov_base, wire.data(), n);
}

/// offset of the type / size / raw members inside the wire image (the harness must not name the
/// private struct; it is a standard-layout {int; size_t; char[4096]})
struct WireLayout { int type_; size_t size; char raw[Ipc::TypedMsgHdr::maxSize]; };
static const size_t OffType = offsetof(WireLayout, type_);
static const size_t OffSize = offsetof(WireLayout, size);
static const size_t OffRaw = offsetof(WireLayout, raw);

static std::string wireImage(int type, uint64_t sizeField, const std::string &content)
{
    std::string w(sizeof(WireLayout), '\0');
    memcpy(&w[OffType], &type, sizeof(type));
    const size_t sf = static_cast<size_t>(sizeField);
    memcpy(&w[OffSize], &sf, sizeof(sf));
    memcpy(&w[OffRaw], content.data(), std::min(content.size(), Cap));
    return w;
}

/// heap buffer of exactly n bytes so that ASan sees any write past the requested size
struct ExactBuf {
    explicit ExactBuf(size_t n): size(n), p(new char[n ? n : 1]) { memset(p.get(), 0x5a, n ? n : 1); }
    size_t size;
    std::unique_ptr<char[]> p;
    std::string str() const { return std::string(p.get(), size); }
};

// ================================================================== (a) round trip

struct Op {
    std::string kind;   // int pod24 pod1000 str fixed fd
    long long num = 0;  // int / fd value
    std::string bytes;  // pod / str / fixed payload
};

struct RtCase {
    int type = 1;
    int transport = 0; // 0 same object, 1 copy ctor, 2 assignment, 3 wire, 4 wire then copy
    std::vector<Op> ops;
};

static std::string showRt(const RtCase &c)
{
    vp::Writer w;
    w.i("type", c.type).i("transport", c.transport);
    for (const auto &o : c.ops) {
        if (o.kind == "int" || o.kind == "fd") w.i(o.kind, o.num);
        else w.s(o.kind, o.bytes);
    }
    return w.str();
}

static RtCase parseRt(const std::string &t)
{
    vp::Reader r(t);
    RtCase c;
    c.type = static_cast<int>(r.i("type"));
    c.transport = static_cast<int>(r.i("transport"));
    for (const auto &kv : r.ordered()) {
        Op o;
        o.kind = kv.first;
        if (o.kind == "int" || o.kind == "fd") o.num = strtoll(kv.second.c_str(), nullptr, 10);
        else if (o.kind == "pod24" || o.kind == "pod1000" || o.kind == "str" || o.kind == "fixed") o.bytes = vp::unesc(kv.second);
        else continue;
        c.ops.push_back(o);
    }
    return c;
}

/// n payload bytes expanded from one generated 64-bit seed (a container of n generated bytes is too slow
/// for 4 KB parts); short payloads are generated byte by byte so that they shrink well
static rc::Gen<std::string> payload(size_t exact)
{
    if (exact <= 16)
        return rc::gen::container<std::string>(exact, rc::gen::map(rc::gen::resize(100, rc::gen::inRange<int>(0, 256)), [](int v) { return static_cast<char>(v); }));
    return rc::gen::map(rc::gen::arbitrary<uint64_t>(), [exact](uint64_t seed) {
        std::string s(exact, '\0');
        uint64_t x = seed * 0x9E3779B97F4A7C15ULL + 0x632BE59BD9B4E019ULL;
        const bool text = seed & 1;
        for (size_t i = 0; i < exact; ++i) {
            x ^= x << 13; x ^= x >> 7; x ^= x << 17;
            s[i] = text ? static_cast<char>('a' + (x >> 32) % 26) : static_cast<char>(x >> 40);
        }
        return s;
    });
}

static rc::Gen<size_t> lengthGen()
{
    using namespace rc;
    return gen::exec([]() -> size_t {
        const int k = *vp::range<int>(0, 15);
        if (k <= 9) return *vp::range<size_t>(0, 40);
        if (k <= 13) return *vp::range<size_t>(0, 1500);
        if (k == 14) return *gen::element<size_t>(4095, 4096, 4097, 4092, 4091, 4088, 2048, 4200);
        return *vp::range<size_t>(3000, 4200);
    });
}

static rc::Gen<RtCase> genRt()
{
    using namespace rc;
    return gen::exec([]() {
        RtCase c;
        c.type = *vp::range<int>(1, 30);
        c.transport = *vp::range<int>(0, 4);
        const int n = *vp::range<int>(1, 8);
        bool fdUsed = false;
        size_t used = 0;
        // part length: mostly from lengthGen, sometimes exactly (or one more than) what is left in the buffer
        auto partLen = [&used](size_t overhead) -> size_t {
            const int k = *vp::range<int>(0, 15);
            const size_t left = used + overhead <= Cap ? Cap - used - overhead : 0;
            if (k == 0) return left;
            if (k == 1) return left + 1;
            return *lengthGen();
        };
        for (int i = 0; i < n; ++i) {
            Op o;
            const int k = *gen::weightedElement<int>({{4, 0}, {2, 1}, {1, 2}, {5, 3}, {3, 4}, {1, 5}});
            switch (k) {
            case 0: o.kind = "int"; o.num = *gen::oneOf(gen::element<int>(0, 1, -1, INT_MAX, INT_MIN, 4096, 4097), gen::arbitrary<int>()); break;
            case 1: o.kind = "pod24"; o.bytes = *payload(sizeof(Pod24)); break;
            case 2: o.kind = "pod1000"; o.bytes = *payload(sizeof(Pod1000)); break;
            case 3: {
                o.kind = "str";
                // String content: any bytes but NUL-free text is what callers store (URIs, action names)
                std::string s = *payload(partLen(sizeof(int)));
                if (*vp::range<int>(0, 3)) for (auto &ch : s) if (!ch) ch = 'x';
                o.bytes = s;
                break;
            }
            case 4: o.kind = "fixed"; o.bytes = *payload(partLen(0)); break;
            default:
                if (fdUsed) { o.kind = "int"; o.num = 7; break; }
                o.kind = "fd"; o.num = *vp::range<int>(0, 70000); fdUsed = true; break;
            }
            c.ops.push_back(o);
            used += o.kind == "int" ? sizeof(int) : o.kind == "str" ? sizeof(int) + o.bytes.size() : o.kind == "fd" ? 0 : o.bytes.size();
        }
        return c;
    });
}

static size_t wireBytes(const Op &o)
{
    if (o.kind == "int") return sizeof(int);
    if (o.kind == "str") return sizeof(int) + o.bytes.size();
    if (o.kind == "fd") return 0;
    return o.bytes.size();
}

static vp::Verdict checkRt(const RtCase &c, vp::Ctx &ctx)
{
    std::unique_ptr<Ipc::TypedMsgHdr> tx(new Ipc::TypedMsgHdr);
    tx->setType(c.type);

    // ---- serialise
    size_t used = 0;
    size_t stored = 0; // ops fully stored
    bool overflowed = false;
    for (const auto &o : c.ops) {
        const size_t need = wireBytes(o);
        const bool fits = used + need <= Cap && !(o.kind == "str" && o.bytes.size() > Cap);
        bool threw = false;
        try {
            if (o.kind == "int") tx->putInt(static_cast<int>(o.num));
            else if (o.kind == "pod24") { Pod24 p; memcpy(&p, o.bytes.data(), sizeof(p)); tx->putPod(p); }
            else if (o.kind == "pod1000") { Pod1000 p; memcpy(&p, o.bytes.data(), sizeof(p)); tx->putPod(p); }
            else if (o.kind == "str") { String s; s.assign(o.bytes.data(), static_cast<int>(o.bytes.size())); tx->putString(s); }
            else if (o.kind == "fixed") { ExactBuf b(o.bytes.size()); memcpy(b.p.get(), o.bytes.data(), o.bytes.size()); tx->putFixed(b.p.get(), o.bytes.size()); }
            else if (o.kind == "fd") tx->putFd(static_cast<int>(o.num));
        } catch (const std::exception &) {
            threw = true;
        }
        if (!fits) {
            // a part that does not fit the fixed 4096-byte buffer must be refused
            ctx.label("put-exceeds-capacity");
            if (!threw) return vp::fail("rt:put-accepted-beyond-capacity", o.kind + " of " + std::to_string(need) + " bytes at " + std::to_string(used));
            overflowed = true;
            break; // what a refused put leaves behind is not specified: stop serialising here
        }
        if (threw) return vp::fail("rt:put-refused-although-it-fits", o.kind + " of " + std::to_string(need) + " bytes at " + std::to_string(used));
        used += need;
        ++stored;
    }

    // ---- carry the message to the reader
    std::unique_ptr<Ipc::TypedMsgHdr> rx;
    bool wire = false;
    switch (c.transport) {
    case 0: rx = std::move(tx); ctx.label("transport-same-object"); break;
    case 1: rx.reset(new Ipc::TypedMsgHdr(*tx)); ctx.label("transport-copy-ctor"); break;
    case 2: rx.reset(new Ipc::TypedMsgHdr); rx->prepForReading(); *rx = *tx; ctx.label("transport-assignment"); break;
    default: {
        wire = true;
        ctx.label("transport-wire");
        const std::string image(static_cast<const char *>(tx->msg_iov[0].iov_base), tx->msg_iov[0].iov_len);
        rx.reset(new Ipc::TypedMsgHdr);
        deliver(*rx, image);
        if (c.transport == 4) {
            std::unique_ptr<Ipc::TypedMsgHdr> cp(new Ipc::TypedMsgHdr(*rx));
            rx = std::move(cp);
        }
        break;
    }
    }
    tx.reset(); // the reader must not depend on the writer's storage

    // ---- type checks
    try { rx->checkType(c.type); } catch (const std::exception &) { return vp::fail("rt:checkType-rejected-stored-type"); }
    if (rx->rawType() != c.type) return vp::fail("rt:rawType-differs");
    bool threwWrong = false;
    try { rx->checkType(c.type == 30 ? 1 : c.type + 1); } catch (const std::exception &) { threwWrong = true; }
    if (!threwWrong) return vp::fail("rt:checkType-accepted-wrong-type");

    // ---- deserialise
    bool hasStr = false;
    size_t pos = 0;
    for (size_t i = 0; i < stored; ++i) {
        const Op &o = c.ops[i];
        if (o.kind != "fd" && wireBytes(o) > 0 && !rx->hasMoreData()) {
            // unread content means more data
            return vp::fail("rt:hasMoreData-false-before-unread-part");
        }
        try {
            if (o.kind == "int") {
                const int v = rx->getInt();
                if (v != static_cast<int>(o.num)) return vp::fail("rt:int-differs", std::to_string(v));
            } else if (o.kind == "pod24") {
                Pod24 p; memset(&p, 0x5a, sizeof(p)); rx->getPod(p);
                if (memcmp(&p, o.bytes.data(), sizeof(p)) != 0) return vp::fail("rt:pod-differs");
            } else if (o.kind == "pod1000") {
                Pod1000 p; memset(&p, 0x5a, sizeof(p)); rx->getPod(p);
                if (memcmp(&p, o.bytes.data(), sizeof(p)) != 0) return vp::fail("rt:pod-differs");
            } else if (o.kind == "str") {
                hasStr = true;
                String s("stale");
                rx->getString(s);
                if (s.size() != o.bytes.size() || (s.size() && memcmp(s.rawBuf(), o.bytes.data(), s.size()) != 0))
                    return vp::fail("rt:string-differs", "got " + std::to_string(s.size()) + " bytes, want " + std::to_string(o.bytes.size()));
            } else if (o.kind == "fixed") {
                ExactBuf b(o.bytes.size());
                rx->getFixed(b.p.get(), o.bytes.size());
                if (b.str() != o.bytes) return vp::fail("rt:fixed-differs");
            } else if (o.kind == "fd") {
                if (wire) continue; // descriptors travel in kernel-made control data, not modelled
                if (!rx->hasFd()) return vp::fail("rt:fd-lost");
                if (rx->getFd() != static_cast<int>(o.num)) return vp::fail("rt:fd-differs");
            }
        } catch (const std::exception &e) {
            return vp::fail("rt:get-threw-on-stored-part", o.kind + " #" + std::to_string(i) + ": " + e.what());
        }
        pos += wireBytes(o);
    }
    if (!overflowed) {
        // everything was read: no more data, and reading on is a truncated-content error
        if (rx->hasMoreData()) return vp::fail("rt:hasMoreData-true-after-last-part");
        bool threw = false;
        try { (void)rx->getInt(); } catch (const std::exception &) { threw = true; }
        if (!threw) return vp::fail("rt:get-past-end-succeeded");
        if (pos + 1 <= Cap) {
            threw = false;
            char one = 0;
            try { rx->getFixed(&one, 1); } catch (const std::exception &) { threw = true; }
            if (!threw) return vp::fail("rt:get-past-end-succeeded");
        }
    }
    if (hasStr) ctx.label("string-op");
    if (stored >= 2 && (hasStr || c.transport != 0)) ctx.nontrivial();
    if (used > Cap - 64) ctx.label("buffer-nearly-full");
    return vp::pass();
}

// ================================================================== (b) received raw messages

struct Get {
    std::string kind; // int pod24 pod1000 str fixed checktype more
    long long arg = 0; // fixed: byte count, checktype: type
};

struct RawCase {
    int typeField = 0;
    uint64_t sizeField = 0;
    std::string content;     // bytes of the raw area (rest zero)
    long long delivered = -1; // bytes of the wire image that arrive (-1 = all)
    int direct = 0;           // replay-only: run the known-defect class on an exactly sized heap object (ASan sees the over-read)
    std::vector<Get> gets;
};

static std::string showRaw(const RawCase &c)
{
    vp::Writer w;
    w.i("type_field", c.typeField).u("size_field", c.sizeField).s("content", c.content).i("delivered", c.delivered).i("direct", c.direct);
    for (const auto &g : c.gets) w.i(g.kind, g.arg);
    return w.str();
}

static RawCase parseRaw(const std::string &t)
{
    vp::Reader r(t);
    RawCase c;
    c.typeField = static_cast<int>(r.i("type_field"));
    c.sizeField = r.u("size_field");
    c.content = r.s("content");
    c.delivered = r.has("delivered") ? r.i("delivered") : -1;
    c.direct = static_cast<int>(r.i("direct"));
    for (const auto &kv : r.ordered()) {
        const std::string &k = kv.first;
        if (k == "int" || k == "pod24" || k == "pod1000" || k == "str" || k == "fixed" || k == "checktype" || k == "more") {
            Get g; g.kind = k; g.arg = strtoll(kv.second.c_str(), nullptr, 10);
            c.gets.push_back(g);
        }
    }
    return c;
}

static void appendInt(std::string &s, int v) { s.append(reinterpret_cast<const char *>(&v), sizeof(v)); }

static rc::Gen<RawCase> genRaw()
{
    using namespace rc;
    return gen::exec([]() {
        RawCase c;
        c.typeField = *gen::weightedElement<int>({{6, 0}, {1, 1}}) == 0 ? *vp::range<int>(1, 14) : *gen::element<int>(0, -1, 15, INT_MAX, INT_MIN);
        // content: a plausible serialisation (so that gets line up with parts) and the matching get sequence
        const int parts = *vp::range<int>(0, 6);
        for (int i = 0; i < parts; ++i) {
            Get g;
            const int k = *gen::weightedElement<int>({{3, 0}, {2, 1}, {1, 2}, {5, 3}, {4, 4}});
            if (k == 0) { g.kind = "int"; appendInt(c.content, *gen::arbitrary<int>()); }
            else if (k == 1) { g.kind = "pod24"; c.content += *payload(sizeof(Pod24)); }
            else if (k == 2) { g.kind = "pod1000"; c.content += *payload(sizeof(Pod1000)); }
            else if (k == 3) {
                g.kind = "str";
                const size_t len = *lengthGen();
                // the length prefix: honest, or a lie
                const int lie = *gen::weightedElement<int>({{6, 0}, {1, 1}, {1, 2}, {1, 3}, {1, 4}});
                int prefix = static_cast<int>(len);
                if (lie == 1) prefix = *gen::element<int>(-1, INT_MIN, -4096);
                else if (lie == 2) prefix = *gen::element<int>(4097, 4096, 5000, 65536, INT_MAX);
                else if (lie == 3) prefix = static_cast<int>(len) + *vp::range<int>(1, 64);
                else if (lie == 4) prefix = *vp::range<int>(0, 4200);
                appendInt(c.content, prefix);
                c.content += *payload(len);
            } else {
                g.kind = "fixed";
                const size_t len = *lengthGen();
                g.arg = static_cast<long long>(len);
                c.content += *payload(len);
                // the reader may ask for a different amount than was written
                const int pert = *gen::weightedElement<int>({{5, 0}, {1, 1}, {1, 2}, {1, 3}});
                if (pert == 1) g.arg += *vp::range<int>(1, 64);
                else if (pert == 2) g.arg = *gen::element<int>(3000, 4096, 4097, 5000, 8000);
                else if (pert == 3) g.arg = *vp::range<int>(0, 8000);
            }
            c.gets.push_back(g);
            if (*vp::range<int>(0, 7) == 0) { Get m; m.kind = "more"; c.gets.push_back(m); }
        }
        if (c.content.size() > Cap) c.content.resize(Cap);
        // extra gets beyond what was written
        const int extra = *gen::weightedElement<int>({{3, 0}, {3, 1}, {2, 2}, {1, 3}});
        for (int i = 0; i < extra; ++i) {
            Get g;
            const int k = *vp::range<int>(0, 5);
            if (k == 0) g.kind = "int";
            else if (k == 1) g.kind = "pod24";
            else if (k == 2) g.kind = "pod1000";
            else if (k == 3) g.kind = "str";
            else { g.kind = "fixed"; g.arg = *gen::oneOf(gen::element<int>(0, 1, 3000, 4096, 5000, 8000), vp::range<int>(0, 8000)); }
            c.gets.push_back(g);
        }
        if (*vp::range<int>(0, 2) == 0) {
            Get g; g.kind = "checktype";
            g.arg = *vp::range<int>(0, 2) ? c.typeField : *vp::range<int>(0, 15);
            c.gets.insert(c.gets.begin(), g);
        }
        // trailing noise in the raw area beyond the honest content
        if (*vp::range<int>(0, 2) == 0 && c.content.size() < Cap)
            c.content += *payload(std::min<size_t>(Cap - c.content.size(), *vp::range<size_t>(1, 300)));
        const uint64_t honest = c.content.size();
        const int sk = *gen::weightedElement<int>({{8, 0}, {2, 1}, {2, 2}, {1, 3}, {1, 4}, {1, 5}, {1, 6}, {1, 7}, {1, 8}});
        switch (sk) {
        case 0: c.sizeField = honest; break;
        case 1: c.sizeField = honest > 0 ? honest - std::min<uint64_t>(honest, *vp::range<uint64_t>(1, 40)) : 0; break;
        case 2: c.sizeField = honest + *vp::range<uint64_t>(1, 40); break;
        case 3: c.sizeField = 0; break;
        case 4: c.sizeField = *gen::element<uint64_t>(4095, 4096); break;
        case 5: c.sizeField = *gen::element<uint64_t>(4097, 4100, 5000, 8192, 10000, 1000000); break;
        case 6: c.sizeField = *gen::element<uint64_t>(1ULL << 31, (1ULL << 32) - 1, 1ULL << 32, (1ULL << 32) + 100, 1ULL << 63, ~0ULL, ~0ULL - 4096); break;
        case 7: c.sizeField = *vp::range<uint64_t>(0, 9000); break;
        default: c.sizeField = *gen::arbitrary<uint64_t>(); break;
        }
        // short delivery: the sender's datagram was smaller than the data struct
        if (*vp::range<int>(0, 11) == 0)
            c.delivered = *gen::oneOf(vp::range<long long>(0, 32), vp::range<long long>(0, static_cast<long long>(sizeof(WireLayout))));
        return c;
    });
}

/// sizeof the part a get reads unconditionally (str: its length prefix)
static size_t fixedPart(const Get &g)
{
    if (g.kind == "int" || g.kind == "str") return sizeof(int);
    if (g.kind == "pod24") return sizeof(Pod24);
    if (g.kind == "pod1000") return sizeof(Pod1000);
    if (g.kind == "fixed") return static_cast<size_t>(g.arg);
    return 0;
}

enum Expect { MustSucceed, MustThrow, EitherWay /* bytes inside the buffer of a message whose size field is out of range */ };

struct Model {
    std::string buf;   // the 4096 bytes of the raw area as delivered
    uint64_t size = 0; // the delivered size field
    int type = 0;      // the delivered type field
    uint64_t limit() const { return std::min<uint64_t>(size, Cap); }
    Expect read(uint64_t o, uint64_t n) const
    {
        if (n == 0) return MustSucceed;
        if (o + n > limit()) return MustThrow;
        return size > Cap ? EitherWay : MustSucceed;
    }
    /// the defect class of known finding "raw:over-read-when-received-size-exceeds-buffer":
    /// the size field exceeds the buffer and the read runs past the buffer but stays below the claimed size
    bool overReadClass(uint64_t o, uint64_t n) const { return n > 0 && size > Cap && o + n > Cap && n <= size - o; }
};

static const size_t ArenaGuard = 20000; // > largest offset+read the generator can ask for past the object

static vp::Verdict checkRawImpl(const RawCase &c, vp::Ctx &ctx, bool exactObject);

/// Replay files with direct=1: the sequence runs in a forked child on an exactly sized heap object, so
/// that the sanitizer sees the over-read of the known defect class; its report becomes the verdict.
static vp::Verdict checkRaw(const RawCase &c, vp::Ctx &ctx)
{
    if (!c.direct)
        return checkRawImpl(c, ctx, false);
    ctx.label("direct-replay");
    int fds[2];
    if (pipe(fds) != 0) { ctx.excluded("pipe() failed"); return vp::pass(); }
    fflush(nullptr);
    const pid_t pid = fork();
    if (pid < 0) { close(fds[0]); close(fds[1]); ctx.excluded("fork() failed"); return vp::pass(); }
    if (pid == 0) {
        close(fds[0]);
        dup2(fds[1], 2);
        vp::current().crashPath.clear();
        vp::Ctx scratch;
        (void)checkRawImpl(c, scratch, true);
        _exit(0);
    }
    close(fds[1]);
    std::string report;
    char buf[4096];
    ssize_t n;
    while ((n = read(fds[0], buf, sizeof(buf))) > 0) report.append(buf, static_cast<size_t>(n));
    close(fds[0]);
    int status = 0;
    waitpid(pid, &status, 0);
    if (WIFEXITED(status) && WEXITSTATUS(status) == 0)
        return checkRawImpl(c, ctx, false); // no sanitizer report: judge by the model
    std::string kind = "died-without-report", access;
    const auto e = report.find("ERROR: AddressSanitizer: ");
    if (e != std::string::npos) {
        const auto b = e + strlen("ERROR: AddressSanitizer: ");
        kind = report.substr(b, report.find_first_of(" \n", b) - b);
        if (report.find("\nREAD of size") != std::string::npos) access = "-READ";
        else if (report.find("\nWRITE of size") != std::string::npos) access = "-WRITE";
    } else if (report.find("runtime error:") != std::string::npos) {
        kind = "ubsan";
    }
    std::string brief;
    size_t lines = 0;
    for (size_t i = 0; i < report.size() && lines < 8; ++i) { brief += report[i] == '\n' ? '|' : report[i]; if (report[i] == '\n') ++lines; }
    return vp::fail("raw:asan-" + kind + access + "-when-received-size-exceeds-buffer", brief);
}

static vp::Verdict checkRawImpl(const RawCase &c, vp::Ctx &ctx, const bool exactObject)
{
    for (const auto &g : c.gets)
        if (g.kind == "fixed" && (g.arg < 0 || g.arg > 8000)) { ctx.excluded("fixed get larger than the harness arena allows (hand-written replay)"); return vp::pass(); }
    // ---- what arrives
    std::string image = wireImage(c.typeField, c.sizeField, c.content);
    if (c.delivered >= 0 && static_cast<size_t>(c.delivered) < image.size()) {
        image.resize(static_cast<size_t>(c.delivered));
        ctx.label("short-delivery");
    }
    std::string full = image;
    full.resize(sizeof(WireLayout), '\0'); // prepForReading() zeroes what recvmsg() does not overwrite
    Model m;
    memcpy(&m.type, &full[OffType], sizeof(int));
    { size_t s; memcpy(&s, &full[OffSize], sizeof(s)); m.size = s; }
    m.buf = full.substr(OffRaw, Cap);

    // ---- pre-scan with the model: does the sequence reach the known over-read class?
    bool reachesOverRead = false;
    {
        uint64_t o = 0;
        for (const auto &g : c.gets) {
            if (g.kind == "checktype") { if (g.arg != m.type) break; continue; }
            if (g.kind == "more") continue;
            const uint64_t n = fixedPart(g);
            if (m.overReadClass(o, n)) { reachesOverRead = true; break; }
            if (m.read(o, n) == MustThrow) break;
            o += n;
            if (g.kind == "str") {
                int len; memcpy(&len, &m.buf[o - sizeof(int)], sizeof(int));
                if (len < 0 || static_cast<size_t>(len) > Cap) break;
                if (m.overReadClass(o, len)) { reachesOverRead = true; break; }
                if (m.read(o, len) == MustThrow) break;
                o += len;
            }
        }
    }

    // ---- the receiving object.  Normally an exactly sized heap object (ASan guards both ends).
    // Sequences that reach the known over-read class run on an object placed inside a larger arena, so
    // that the over-read is observed as "get succeeded" instead of killing the search; replay files with
    // direct=1 run them on the exactly sized object and reproduce the ASan report.
    std::unique_ptr<Ipc::TypedMsgHdr> heapMsg;
    std::unique_ptr<char[]> arena;
    Ipc::TypedMsgHdr *rx = nullptr;
    const bool useArena = reachesOverRead && !exactObject && knownOpen("raw:over-read-when-received-size-exceeds-buffer");
    if (useArena) {
        const size_t total = sizeof(Ipc::TypedMsgHdr) + ArenaGuard + 64;
        arena.reset(new char[total]);
        memset(arena.get(), 0xa5, total);
        void *p = arena.get();
        size_t space = total;
        void *aligned = std::align(alignof(Ipc::TypedMsgHdr) < 16 ? 16 : alignof(Ipc::TypedMsgHdr), sizeof(Ipc::TypedMsgHdr), p, space);
        rx = new (aligned) Ipc::TypedMsgHdr;
        ctx.label("known-class:over-read-probed-in-arena");
    } else {
        heapMsg.reset(new Ipc::TypedMsgHdr);
        rx = heapMsg.get();
    }
    struct Cleanup { Ipc::TypedMsgHdr *p; bool placed; ~Cleanup() { if (placed) p->~TypedMsgHdr(); } } cleanup{rx, useArena};
    deliver(*rx, image);

    if (m.size > Cap) ctx.label("size-field-exceeds-buffer");
    else if (m.size != c.content.size()) ctx.label("size-field-differs-from-content");
    else ctx.label("size-field-honest");

    // ---- run the gets against the model
    uint64_t o = 0;
    unsigned succeeded = 0, threw = 0;
    vp::Verdict verdict = vp::pass();
    for (size_t i = 0; i < c.gets.size() && verdict.ok && !threw; ++i) {
        const Get &g = c.gets[i];
        const std::string at = g.kind + " #" + std::to_string(i) + " at offset " + std::to_string(o) + " size_field " + std::to_string(m.size);
        if (g.kind == "more") {
            // meaningful only for in-range size fields
            if (m.size <= Cap && rx->hasMoreData() != (o < m.size)) verdict = vp::fail("raw:hasMoreData-wrong", at);
            continue;
        }
        if (g.kind == "checktype") {
            bool t = false;
            try { rx->checkType(static_cast<int>(g.arg)); } catch (const std::exception &) { t = true; }
            if (t != (g.arg != m.type)) verdict = vp::fail(t ? "raw:checkType-rejected-stored-type" : "raw:checkType-accepted-wrong-type", at);
            if (t) ++threw;
            continue;
        }
        // -- expectation for the unconditional part
        const uint64_t n = fixedPart(g);
        Expect ex = m.read(o, n);
        bool known = m.overReadClass(o, n);
        uint64_t total = n;
        std::string wantStr;
        bool badLen = false;
        if (g.kind == "str" && ex != MustThrow) {
            int len; memcpy(&len, &m.buf[o], sizeof(int));
            if (len < 0 || static_cast<size_t>(len) > Cap) {
                ex = MustThrow; // negative or out-of-range length
                badLen = true;
                ctx.label("string-length-out-of-range");
            } else if (len > 0) {
                const Expect ex2 = m.read(o + n, len);
                known = m.overReadClass(o + n, len);
                if (ex2 == MustThrow) { ex = MustThrow; ctx.label("string-length-exceeds-content"); }
                else if (ex2 == EitherWay) ex = EitherWay;
                if (ex2 != MustThrow) wantStr = m.buf.substr(o + n, len);
                total = n + len;
            }
        }
        if (known) ctx.label("over-read-class-step");
        if (g.kind == "str" && m.overReadClass(o, n) && useArena) {
            // Known class, string flavour: the length prefix itself straddles the end of the buffer.  After
            // that over-read getString() goes on with offset > 4096 and a garbage length, which UBSan
            // (index out of bounds in getRaw) turns into an abort even inside the arena.  Counted and
            // skipped; getInt at the same offset exercises the same over-read.
            ctx.excluded("known class raw:over-read-when-received-size-exceeds-buffer: getString whose length prefix straddles the buffer end is not executed");
            break;
        }

        // -- execute
        bool t = false;
        std::string got;
        int gotInt = 0;
        try {
            if (g.kind == "int") { gotInt = rx->getInt(); got.assign(reinterpret_cast<const char *>(&gotInt), sizeof(int)); }
            else if (g.kind == "pod24") { Pod24 p; memset(&p, 0x5a, sizeof(p)); rx->getPod(p); got.assign(reinterpret_cast<const char *>(&p), sizeof(p)); }
            else if (g.kind == "pod1000") { Pod1000 p; memset(&p, 0x5a, sizeof(p)); rx->getPod(p); got.assign(reinterpret_cast<const char *>(&p), sizeof(p)); }
            else if (g.kind == "fixed") { ExactBuf b(n); rx->getFixed(b.p.get(), n); got = b.str(); }
            else if (g.kind == "str") { String s("stale"); rx->getString(s); got.assign(s.size() ? s.rawBuf() : "", s.size()); }
        } catch (const std::exception &) {
            t = true;
        }

        // -- judge
        if (t) {
            ++threw;
            if (ex == MustSucceed) verdict = vp::fail("raw:get-threw-inside-declared-content", at);
            else if (ex == EitherWay) ctx.label("out-of-range-size:in-buffer-get-refused");
            continue;
        }
        ++succeeded;
        if (ex == MustThrow) {
            if (known)
                verdict = vp::fail("raw:over-read-when-received-size-exceeds-buffer", at + ": get of " + std::to_string(total) + " bytes succeeded beyond the 4096-byte buffer");
            else if (badLen)
                verdict = vp::fail("raw:string-with-bad-length-accepted", at);
            else
                verdict = vp::fail("raw:get-succeeded-beyond-declared-content", at);
            continue;
        }
        if (ex == EitherWay) ctx.label("out-of-range-size:in-buffer-get-served");
        if (g.kind == "str") {
            if (got != wantStr) verdict = vp::fail("raw:string-bytes-differ", at);
        } else if (got != m.buf.substr(o, n)) {
            verdict = vp::fail("raw:bytes-differ", at);
        }
        o += total;
    }

    if (threw) ctx.label("sequence-ended-by-exception");
    if (succeeded && (threw || m.size != c.content.size())) ctx.nontrivial();
    if (m.size > Cap) ctx.nontrivial();
    return verdict;
}

#ifdef VP_FUZZ
static RawCase fuzzRaw(FuzzedDataProvider &fdp)
{
    RawCase c;
    c.typeField = fdp.ConsumeIntegralInRange<int>(-1, 15);
    const int sk = fdp.ConsumeIntegralInRange<int>(0, 5);
    const int ng = fdp.ConsumeIntegralInRange<int>(0, 8);
    for (int i = 0; i < ng; ++i) {
        Get g;
        static const char *kinds[] = {"int", "pod24", "pod1000", "str", "fixed", "checktype", "more"};
        g.kind = kinds[fdp.ConsumeIntegralInRange<int>(0, 6)];
        if (g.kind == "fixed") g.arg = fdp.ConsumeIntegralInRange<int>(0, 8000);
        if (g.kind == "checktype") g.arg = fdp.ConsumeIntegralInRange<int>(-1, 15);
        c.gets.push_back(g);
    }
    uint64_t sz = fdp.ConsumeIntegral<uint64_t>();
    const int del = fdp.ConsumeIntegralInRange<int>(-1, 64);
    c.delivered = del < 0 || del > 40 ? -1 : del;
    c.content = fdp.ConsumeRemainingBytesAsString();
    if (c.content.size() > Cap) c.content.resize(Cap);
    switch (sk) {
    case 0: case 1: c.sizeField = c.content.size(); break;
    case 2: c.sizeField = sz % 9000; break;
    case 3: c.sizeField = c.content.size() + (sz % 64); break;
    case 4: c.sizeField = 4096 + (sz % 3); break;
    default: c.sizeField = sz; break;
    }
    return c;
}
#else
static std::function<RawCase(FuzzedDataProvider &)> fuzzRaw = nullptr;
#endif

static void registerAll()
{
    vp::add<RtCase>("roundtrip", genRt(), checkRt, showRt, parseRt, 1.0);
    vp::add<RawCase>("received_raw", genRaw(), checkRaw, showRaw, parseRaw, 1.5, fuzzRaw);
}

VP_MAIN(registerAll)
