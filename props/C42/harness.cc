// C42 IP-address ACLs match exactly the configured address sets.
// Domain : "acl NAME src|localip v..." lines: single IPv4/IPv6 addresses, a/len networks (no host bits), a-b ranges,
//          a-b/len ranges of networks, and the words all/ipv4/ipv6; any order, overlaps, several lines per name; fed
//          through ConfigParser::SetCfgLine + Acl::Node::ParseNamedAcl into the real ACLSourceIP / ACLLocalIP
//          (ACLIP::parse, acl_ip_data::FactoryParse, Acl::SplayInserter<acl_ip_data*>), probed through
//          Acl::Node::matches() with an ACLFilledChecklist carrying the address.
// Oracle : per-family interval-set model on unsigned __int128: match <=> the address lies in the union of the
//          listed sets (all/ipv4/ipv6 = whole families); a permuted twin ACL answers identically.
#include "squid.h"
#include "acl/Acl.h"
#include "acl/FilledChecklist.h"
#include "acl/LocalIp.h"
#include "acl/Node.h"
#include "acl/SourceIp.h"
#include "anyp/PortCfg.h"
#include "ConfigParser.h"
#include "debug/Stream.h"
#include "ip/Address.h"
#include "ip/tools.h"
#include "SquidConfig.h"

#include "verif_pbt.h"
#include "../C43/acl_memstub.h"

#include <arpa/inet.h>

/* globals required to resolve link issues (as in tests/testACLMaxUserIP.cc) */
AnyP::PortCfgPointer HttpPortList;

// a smaller quarantine than ASan's 256 MB default keeps the working set (and page-fault cost) small
extern "C" const char *__asan_default_options() { return "quarantine_size_mb=16:malloc_context_size=2"; }

namespace {

using u128 = unsigned __int128;

// ---- addresses and values

struct Addr { bool v6 = false; u128 a = 0; };

u128 maxOf(const bool v6) { return v6 ? ~static_cast<u128>(0) : static_cast<u128>(0xffffffffu); }
int bitsOf(const bool v6) { return v6 ? 128 : 32; }

std::string addrText(const Addr &x)
{
    char buf[INET6_ADDRSTRLEN + 1];
    if (!x.v6) {
        const unsigned v = static_cast<unsigned>(x.a);
        snprintf(buf, sizeof buf, "%u.%u.%u.%u", v >> 24, (v >> 16) & 255, (v >> 8) & 255, v & 255);
        return buf;
    }
    struct in6_addr in;
    for (int i = 0; i < 16; ++i) in.s6_addr[i] = static_cast<unsigned char>(x.a >> (8 * (15 - i)));
    inet_ntop(AF_INET6, &in, buf, sizeof buf);
    return buf;
}

Ip::Address toSquid(const Addr &x)
{
    if (!x.v6) {
        struct in_addr in;
        in.s_addr = htonl(static_cast<uint32_t>(x.a));
        return Ip::Address(in);
    }
    struct in6_addr in;
    for (int i = 0; i < 16; ++i) in.s6_addr[i] = static_cast<unsigned char>(x.a >> (8 * (15 - i)));
    return Ip::Address(in);
}

/// one ACL parameter
struct Value {
    int kind = 0;     // 0 address, 1 a/len, 2 a-b, 3 a-b/len, 4 all, 5 ipv4, 6 ipv6
    bool v6 = false;
    u128 a = 0, b = 0;
    int len = 0;
};

u128 hostMask(const bool v6, const int len)
{
    const int host = bitsOf(v6) - len;
    if (host <= 0) return 0;
    if (host >= 128) return ~static_cast<u128>(0);
    return (static_cast<u128>(1) << host) - 1;
}

std::string valueText(const Value &v)
{
    switch (v.kind) {
    case 0: return addrText({v.v6, v.a});
    case 1: return addrText({v.v6, v.a}) + "/" + std::to_string(v.len);
    case 2: return addrText({v.v6, v.a}) + "-" + addrText({v.v6, v.b});
    case 3: return addrText({v.v6, v.a}) + "-" + addrText({v.v6, v.b}) + "/" + std::to_string(v.len);
    case 4: return "all";
    case 5: return "ipv4";
    default: return "ipv6";
    }
}

/// the set a value denotes: [lo, hi] within one family, or whole families
struct Set { bool any4 = false, any6 = false, v6 = false, interval = false; u128 lo = 0, hi = 0; };

Set denote(const Value &v)
{
    Set s;
    switch (v.kind) {
    case 0: s.interval = true; s.v6 = v.v6; s.lo = s.hi = v.a; break;
    case 1: s.interval = true; s.v6 = v.v6; s.lo = v.a; s.hi = v.a | hostMask(v.v6, v.len); break;
    case 2: s.interval = true; s.v6 = v.v6; s.lo = v.a; s.hi = v.b; break;
    case 3: s.interval = true; s.v6 = v.v6; s.lo = v.a; s.hi = v.b | hostMask(v.v6, v.len); break; // networks a..b
    case 4: s.any4 = s.any6 = true; break;
    case 5: s.any4 = true; break;
    default: s.any6 = true; break;
    }
    return s;
}

bool model(const std::vector<Set> &sets, const Addr &p)
{
    for (const auto &s : sets) {
        if (p.v6 ? s.any6 : s.any4) return true;
        if (s.interval && s.v6 == p.v6 && s.lo <= p.a && p.a <= s.hi) return true;
    }
    return false;
}

/// the generator's promises (checked again on replayed cases)
bool valueOk(const Value &v)
{
    if (v.kind >= 4) return v.kind <= 6;
    if (v.kind < 0) return false;
    if (v.a > maxOf(v.v6) || v.b > maxOf(v.v6)) return false;
    // IPv6 parameters stay clear of ::/3 (where IPv4-mapped and other embedded-IPv4 forms live): the statement's
    // sets are per family; and 0.0.0.0/0 & friends are documented aliases of "all"
    if (v.v6 && (v.a >> 125) == 0) return false;
    if (v.kind == 1 || v.kind == 3) {
        if (v.len < 1 || v.len > bitsOf(v.v6)) return false;
        if (v.a & hostMask(v.v6, v.len)) return false; // no host bits below the mask
    }
    if (v.kind == 2 || v.kind == 3) {
        if (v.b < v.a) return false;
        if (!v.v6 && v.a == 0 && v.b == maxOf(false)) return false; // 0.0.0.0-255.255.255.255 is a documented alias of "all"
        if (v.kind == 3 && (v.b & hostMask(v.v6, v.len))) return false;
    }
    return true;
}

std::string showValue(const Value &v)
{
    // kind,v6,len,a-hi,a-lo,b-hi,b-lo
    char buf[160];
    snprintf(buf, sizeof buf, "%d,%d,%d,%llx,%llx,%llx,%llx", v.kind, v.v6 ? 1 : 0, v.len,
             static_cast<unsigned long long>(v.a >> 64), static_cast<unsigned long long>(v.a),
             static_cast<unsigned long long>(v.b >> 64), static_cast<unsigned long long>(v.b));
    return std::string(buf) + " " + valueText(v);
}

Value parseValue(const std::string &s)
{
    Value v;
    int v6 = 0;
    unsigned long long ah = 0, al = 0, bh = 0, bl = 0;
    sscanf(s.c_str(), "%d,%d,%d,%llx,%llx,%llx,%llx", &v.kind, &v6, &v.len, &ah, &al, &bh, &bl);
    v.v6 = v6 != 0;
    v.a = (static_cast<u128>(ah) << 64) | al;
    v.b = (static_cast<u128>(bh) << 64) | bl;
    return v;
}

std::string showAddr(const Addr &p)
{
    char buf[80];
    snprintf(buf, sizeof buf, "%d,%llx,%llx", p.v6 ? 1 : 0, static_cast<unsigned long long>(p.a >> 64), static_cast<unsigned long long>(p.a));
    return std::string(buf) + " " + addrText(p);
}

Addr parseAddr(const std::string &s)
{
    Addr p;
    int v6 = 0;
    unsigned long long h = 0, l = 0;
    sscanf(s.c_str(), "%d,%llx,%llx", &v6, &h, &l);
    p.v6 = v6 != 0;
    p.a = (static_cast<u128>(h) << 64) | l;
    if (!p.v6) p.a &= 0xffffffffu;
    return p;
}

// ---- driving the real code

int aclCounter = 0;

void feedLine(const std::string &text)
{
    std::vector<char> line(text.begin(), text.end());
    line.push_back('\0');
    ConfigParser::SetCfgLine(line.data());
    ConfigParser parser;
    Acl::Node::ParseNamedAcl(parser, Config.namedAcls);
    ConfigParser::SetCfgLine(nullptr);
}

Acl::Node *build(const std::string &name, const char *type, const std::vector<Value> &items, const std::vector<int> &cuts)
{
    size_t pos = 0, lineNo = 0;
    bool first = true;
    while (first || pos < items.size()) {
        size_t n = items.size() - pos;
        if (lineNo < cuts.size() && cuts[lineNo] >= 0 && static_cast<size_t>(cuts[lineNo]) < n) n = cuts[lineNo];
        if (!first && n == 0) n = 1;
        std::string text = name + " " + type;
        for (size_t i = 0; i < n; ++i) text += (i % 2 ? "\t" : " ") + valueText(items[pos + i]);
        feedLine(text);
        pos += n;
        ++lineNo;
        first = false;
    }
    return Acl::Node::FindByName(SBuf(name));
}

void resetAcls()
{
    // squid.conf default "configuration_includes_quoted_values off" (what default_all() sets before parsing)
    ConfigParser::RecognizeQuotedValues = false;
    ConfigParser::StrictMode = false;
    // what Ip::ProbeTransport() finds at start-up on a dual-stack host (main() is not part of the harness);
    // with IPv6 off, IPv6 parameters are dropped with a warning by design
    Ip::EnableIpv6 = IPV6_SPECIAL_V4MAPPING;
    if (Config.namedAcls) Acl::FreeNamedAcls(&Config.namedAcls);
}

/// what a transaction does: the address sits in the checklist and the node is asked whether it matches
bool probe(ACLFilledChecklist &ch, Acl::Node *node, const bool local, const Addr &p)
{
    if (local) ch.my_addr = toSquid(p); else ch.src_addr = toSquid(p);
    return node->matches(&ch);
}

bool collide(const std::vector<Value> &items)
{
    for (size_t i = 0; i < items.size(); ++i) {
        const Set a = denote(items[i]);
        if (!a.interval) continue;
        for (size_t j = i + 1; j < items.size(); ++j) {
            const Set b = denote(items[j]);
            if (!b.interval || a.v6 != b.v6) continue;
            const bool aBelow = a.hi < b.lo && b.lo - a.hi > 1;
            const bool bBelow = b.hi < a.lo && a.lo - b.hi > 1;
            if (!aBelow && !bBelow) return true;
        }
    }
    return false;
}

vp::Verdict judge(Acl::Node *a, Acl::Node *b, const bool local, const std::vector<Value> &items, const std::vector<Addr> &probes, int &hits, int &misses)
{
    std::vector<Set> sets;
    for (const auto &v : items) sets.push_back(denote(v));
    ACLFilledChecklist ch;
    for (const auto &p : probes) {
        const bool want = model(sets, p);
        const bool got = probe(ch, a, local, p);
        want ? ++hits : ++misses;
        if (got != want)
            return vp::fail(want ? "ip:listed-address-not-matched" : "ip:unlisted-address-matched", "probe " + addrText(p));
        if (b && probe(ch, b, local, p) != got)
            return vp::fail("ip:order-dependent-answer", "probe " + addrText(p));
    }
    return vp::pass();
}

// ------------------------------------------------------------------ random lists

struct RCase {
    std::vector<Value> values;
    std::vector<int> cuts, perm, cuts2;
    std::vector<Addr> probes;
    int type = 0; // 0 src, 1 localip
};

std::string showR(const RCase &c)
{
    vp::Writer w;
    w.i("type", c.type);
    for (const auto &v : c.values) w.s("value", showValue(v));
    for (int x : c.cuts) w.i("cut", x);
    for (int x : c.perm) w.i("perm", x);
    for (int x : c.cuts2) w.i("cut2", x);
    for (const auto &p : c.probes) w.s("probe", showAddr(p));
    return w.str();
}

RCase parseR(const std::string &t)
{
    vp::Reader r(t);
    RCase c;
    c.type = static_cast<int>(r.i("type"));
    for (size_t i = 0; i < r.count("value"); ++i) c.values.push_back(parseValue(r.s("value", i)));
    for (size_t i = 0; i < r.count("cut"); ++i) c.cuts.push_back(static_cast<int>(r.i("cut", i)));
    for (size_t i = 0; i < r.count("perm"); ++i) c.perm.push_back(static_cast<int>(r.i("perm", i)));
    for (size_t i = 0; i < r.count("cut2"); ++i) c.cuts2.push_back(static_cast<int>(r.i("cut2", i)));
    for (size_t i = 0; i < r.count("probe"); ++i) c.probes.push_back(parseAddr(r.s("probe", i)));
    return c;
}

const u128 V4Base = 0xC0000200u;                                        // 192.0.2.0
const u128 V6Base = (static_cast<u128>(0x20010db8u) << 96);            // 2001:db8::

rc::Gen<RCase> genR()
{
    using namespace rc;
    return gen::exec([]() {
        RCase c;
        c.type = *vp::range<int>(0, 1);
        const int n = *gen::weightedElement<int>({{1, 1}, {2, 2}, {3, 3}, {3, 4}, {2, 6}, {1, 9}, {1, 12}});
        const int famMode = *gen::weightedElement<int>({{3, 0}, {3, 1}, {3, 2}}); // v4 only, v6 only, mixed
        const bool wide = *vp::range<int>(0, 3) == 0;
        std::vector<Addr> pool; // endpoints seen so far: new values are built to touch/overlap them
        for (int i = 0; i < n; ++i) {
            Value v;
            if (*vp::range<int>(0, 29) == 0) { v.kind = *vp::range<int>(4, 6); c.values.push_back(v); continue; }
            v.v6 = famMode == 1 || (famMode == 2 && *gen::arbitrary<bool>());
            const int bits = bitsOf(v.v6);
            auto fresh = [&]() -> u128 {
                if (!wide) return (v.v6 ? V6Base : V4Base) + *vp::range<int>(0, 15);
                if (!v.v6) return static_cast<u128>(*gen::arbitrary<uint32_t>()) | (*gen::arbitrary<bool>() ? 0 : 0x01000000u);
                u128 x = (static_cast<u128>(*gen::arbitrary<uint64_t>()) << 64) | *gen::arbitrary<uint64_t>();
                x = (x & ~(static_cast<u128>(7) << 125)) | (static_cast<u128>(*vp::range<int>(1, 7)) << 125); // outside ::/3
                return x;
            };
            auto near = [&]() -> u128 {
                std::vector<u128> same;
                for (const auto &p : pool) if (p.v6 == v.v6) same.push_back(p.a);
                if (same.empty()) return fresh();
                u128 x = same[*vp::range<int>(0, static_cast<int>(same.size()) - 1)];
                const int d = *vp::range<int>(-2, 2);
                if (d < 0 && x < static_cast<u128>(-d)) return x;
                if (d > 0 && maxOf(v.v6) - x < static_cast<u128>(d)) return x;
                x = d < 0 ? x - static_cast<u128>(-d) : x + static_cast<u128>(d);
                if (v.v6 && (x >> 125) == 0) return fresh();
                return x;
            };
            u128 a = *vp::range<int>(0, 2) ? near() : fresh();
            v.kind = *gen::weightedElement<int>({{3, 0}, {3, 1}, {3, 2}, {1, 3}});
            if (v.kind == 1 || v.kind == 3) {
                v.len = wide ? *vp::range<int>(v.v6 ? 4 : 1, bits) : bits - *vp::range<int>(0, 4);
                a &= ~hostMask(v.v6, v.len);
                if (v.v6 && (a >> 125) == 0) a |= static_cast<u128>(1) << 125;
            }
            v.a = a;
            if (v.kind == 2 || v.kind == 3) {
                u128 b;
                const int how = *vp::range<int>(0, 3);
                if (how == 0) b = a;
                else if (how == 1) b = near();
                else {
                    const u128 room = maxOf(v.v6) - a;
                    u128 step = wide ? (static_cast<u128>(*gen::arbitrary<uint64_t>()) << (v.v6 ? *vp::range<int>(0, 60) : 0)) % (static_cast<u128>(1) << (v.v6 ? 120 : 31)) : static_cast<u128>(*vp::range<int>(0, 15));
                    if (step > room) step = room;
                    b = a + step;
                }
                if (v.kind == 3) b &= ~hostMask(v.v6, v.len);
                if (b < a) std::swap(a, b);
                if (v.v6 && (a >> 125) == 0) { a = b; }
                v.a = a; v.b = b;
            }
            if (!valueOk(v)) { v.kind = 0; v.a = fresh(); }
            const Set s = denote(v);
            pool.push_back({v.v6, s.lo});
            pool.push_back({v.v6, s.hi});
            c.values.push_back(v);
        }
        auto cutsGen = [&](std::vector<int> &cuts) {
            const int lines = *gen::weightedElement<int>({{3, 1}, {2, 2}, {1, 3}});
            for (int i = 1; i < lines; ++i) cuts.push_back(*vp::range<int>(0, n));
        };
        cutsGen(c.cuts);
        cutsGen(c.cuts2);
        for (int i = 0; i < n; ++i) c.perm.push_back(i);
        for (int i = n - 1; i > 0; --i) std::swap(c.perm[i], c.perm[*vp::range<int>(0, i)]);
        // probes: every endpoint +-1, the small universes' neighbourhood, a few far addresses of both families
        std::set<std::pair<bool, u128>> pr;
        for (const auto &e : pool) {
            pr.insert({e.v6, e.a});
            if (e.a > 0) pr.insert({e.v6, e.a - 1});
            if (e.a < maxOf(e.v6)) pr.insert({e.v6, e.a + 1});
        }
        pr.insert({false, V4Base + *vp::range<int>(0, 16)});
        pr.insert({true, V6Base + *vp::range<int>(0, 16)});
        pr.insert({false, 0x7f000001u});
        pr.insert({true, static_cast<u128>(1)}); // ::1
        const int extra = *vp::range<int>(0, 4);
        for (int i = 0; i < extra; ++i) {
            if (*gen::arbitrary<bool>()) pr.insert({false, *gen::arbitrary<uint32_t>()});
            else pr.insert({true, (static_cast<u128>(*gen::arbitrary<uint64_t>() | (1ULL << 61)) << 64) | *gen::arbitrary<uint64_t>()});
        }
        for (const auto &p : pr) c.probes.push_back({p.first, p.second});
        return c;
    });
}

vp::Verdict checkR(const RCase &c, vp::Ctx &ctx)
{
    resetAcls();
    if (c.values.empty() || c.perm.size() != c.values.size()) { ctx.excluded("malformed case"); return vp::pass(); }
    for (const auto &v : c.values) if (!valueOk(v)) { ctx.excluded("value outside the generated syntax"); return vp::pass(); }
    std::vector<Value> permuted;
    for (int i : c.perm) {
        if (i < 0 || static_cast<size_t>(i) >= c.values.size()) { ctx.excluded("malformed case"); return vp::pass(); }
        permuted.push_back(c.values[i]);
    }
    std::vector<Addr> probes;
    for (const auto &p : c.probes) {
        // IPv6 probes inside ::ffff:0:0/96 are IPv4 addresses to Squid; probe those as IPv4 instead
        if (p.v6 && (p.a >> 32) == 0xffff) continue;
        probes.push_back(p);
    }
    const char *type = c.type ? "localip" : "src";
    const std::string n1 = "vpA" + std::to_string(++aclCounter), n2 = "vpB" + std::to_string(aclCounter);
    Acl::Node *a = build(n1, type, c.values, c.cuts);
    Acl::Node *b = build(n2, type, permuted, c.cuts2);
    if (!a || !b) { resetAcls(); return vp::fail("ip:acl-not-created"); }
    if (collide(c.values)) { ctx.nontrivial(); ctx.label("overlapping-or-adjacent-values"); }
    bool has4 = false, has6 = false, masked = false, word = false;
    for (const auto &v : c.values) {
        if (v.kind >= 4) word = true; else (v.v6 ? has6 : has4) = true;
        if (v.kind == 3) masked = true;
    }
    if (has4 && has6) ctx.label("mixed-families");
    if (masked) ctx.label("has-range-with-mask");
    if (word) ctx.label("has-all-ipv4-ipv6-word");
    if (!c.cuts.empty()) ctx.label("multi-line");
    int hits = 0, misses = 0;
    const vp::Verdict v = judge(a, b, c.type != 0, c.values, probes, hits, misses);
    if (hits && misses) ctx.label("probes-both-ways");
    resetAcls();
    return v;
}

// ------------------------------------------------------------------ exhaustive small scope

int envInt(const char *name, int dflt)
{
    const char *v = getenv(name);
    return (v && *v) ? atoi(v) : dflt;
}

/// every way to write a subset of `count` consecutive addresses starting at base (count = 4 or 8, base aligned)
void addFamilyValues(std::vector<Value> &out, const bool v6, const u128 base, const int count)
{
    const int bits = bitsOf(v6);
    for (int i = 0; i < count; ++i) { Value v; v.kind = 0; v.v6 = v6; v.a = base + i; out.push_back(v); }
    for (int size = 2; size <= count; size *= 2)
        for (int i = 0; i < count; i += size) {
            Value v; v.kind = 1; v.v6 = v6; v.a = base + i;
            int l = 0; for (int s = size; s > 1; s /= 2) ++l;
            v.len = bits - l;
            out.push_back(v);
        }
    for (int i = 0; i < count; ++i)
        for (int j = i; j < count; ++j) { Value v; v.kind = 2; v.v6 = v6; v.a = base + i; v.b = base + j; out.push_back(v); }
    for (int size = 2; size < count; size *= 2)
        for (int i = 0; i < count; i += size)
            for (int j = i; j < count; j += size) {
                Value v; v.kind = 3; v.v6 = v6; v.a = base + i; v.b = base + j;
                int l = 0; for (int s = size; s > 1; s /= 2) ++l;
                v.len = bits - l;
                out.push_back(v);
            }
}

struct Universe { std::vector<Value> values; std::vector<Addr> probes; };

const std::vector<Universe> &universes()
{
    static std::vector<Universe> us;
    if (!us.empty()) return us;
    us.resize(3);
    // 0: eight IPv4 addresses 192.0.2.8-15; 1: eight IPv6 addresses 2001:db8::8-f; 2: four of each family + the words
    addFamilyValues(us[0].values, false, V4Base + 8, 8);
    addFamilyValues(us[1].values, true, V6Base + 8, 8);
    addFamilyValues(us[2].values, false, V4Base + 4, 4);
    addFamilyValues(us[2].values, true, V6Base + 4, 4);
    for (int k = 4; k <= 6; ++k) { Value v; v.kind = k; us[2].values.push_back(v); }
    for (int i = -2; i < 10; ++i) { us[0].probes.push_back({false, V4Base + 8 + i}); us[1].probes.push_back({true, V6Base + 8 + i}); }
    us[0].probes.push_back({true, V6Base + 9});
    us[1].probes.push_back({false, V4Base + 9});
    for (int i = -2; i < 6; ++i) { us[2].probes.push_back({false, V4Base + 4 + i}); us[2].probes.push_back({true, V6Base + 4 + i}); }
    us[2].probes.push_back({false, 0x0a000001u});
    us[2].probes.push_back({true, static_cast<u128>(1)});
    return us;
}

/// chunk = (universe, first value i, second value j or "none"); the check enumerates every third value.
/// With VP_C42_DEPTH=4 there is a fourth chunk family (u = 3): the mixed universe with the first three values
/// (i, j, k) fixed and every fourth value enumerated.
struct ECase { int u = 0, i = 0, j = 0, k = 0; };
std::string showE(const ECase &c) { return vp::Writer().i("u", c.u).i("i", c.i).i("j", c.j).i("k", c.k).str(); }
ECase parseE(const std::string &t)
{
    vp::Reader r(t);
    ECase c;
    c.u = static_cast<int>(r.i("u")); c.i = static_cast<int>(r.i("i")); c.j = static_cast<int>(r.i("j")); c.k = static_cast<int>(r.i("k"));
    return c;
}

int depthEnv() { static const int d = envInt("VP_C42_DEPTH", 3); return d; }
long chunksOf(const int u)
{
    const long n = static_cast<long>(universes()[u == 3 ? 2 : u].values.size());
    if (u == 3) return depthEnv() >= 4 ? n * n * n : 0;
    return n * (n + 1);
}
long totalChunks() { return chunksOf(0) + chunksOf(1) + chunksOf(2) + chunksOf(3); }

long myChunks()
{
    const long shards = std::max(1, envInt("VP_SHARDS", 1)), shard = envInt("VP_SHARD", 0) % shards;
    return (totalChunks() - shard + shards - 1) / shards;
}

rc::Gen<ECase> genE()
{
    using namespace rc;
    return gen::exec([]() {
        // deterministic enumeration (no randomness): shard s of n takes chunks s, s+n, s+2n, ... cyclically
        static const long shards = std::max(1, envInt("VP_SHARDS", 1)), shard = envInt("VP_SHARD", 0) % shards;
        static long n = 0;
        long q = (shard + (n++ % myChunks()) * shards) % totalChunks();
        ECase c;
        for (c.u = 0; c.u <= 3; ++c.u) {
            if (q < chunksOf(c.u)) break;
            q -= chunksOf(c.u);
        }
        if (c.u > 3) { c.u = 0; q = 0; }
        const long nvals = static_cast<long>(universes()[c.u == 3 ? 2 : c.u].values.size());
        if (c.u == 3) {
            c.k = static_cast<int>(q % nvals); q /= nvals;
            c.j = static_cast<int>(q % nvals); q /= nvals;
            c.i = static_cast<int>(q % nvals);
            return c;
        }
        c.i = static_cast<int>(q / (nvals + 1));
        c.j = static_cast<int>(q % (nvals + 1));
        return c;
    });
}

vp::Verdict checkE(const ECase &c, vp::Ctx &ctx)
{
    static std::set<long> seen;
    resetAcls();
    if (c.u < 0 || c.u > 3) { ctx.excluded("malformed case"); return vp::pass(); }
    const Universe &U = universes()[c.u == 3 ? 2 : c.u];
    const int nvals = static_cast<int>(U.values.size());
    if (c.i < 0 || c.i >= nvals || c.j < 0 || c.j > nvals) { ctx.excluded("malformed case"); return vp::pass(); }
    if (c.u == 3 && (c.j >= nvals || c.k < 0 || c.k >= nvals)) { ctx.excluded("malformed case"); return vp::pass(); }
    if (!seen.insert(((c.u * 1000L + c.i) * 1000 + c.j) * 1000 + (c.u == 3 ? c.k : 0)).second) {
        // the cyclic enumeration came round again: nothing new to learn in this process
        ctx.excluded("chunk already enumerated by this process");
        return vp::pass();
    }
    if (seen.size() == static_cast<size_t>(myChunks())) ctx.label("shard-enumeration-complete");
    ctx.nontrivial();
    ctx.label(c.u == 3 ? std::string("universe-2-lists-of-4") : std::string("universe-") + std::to_string(c.u));
    auto one = [&](const std::vector<Value> &list, const int layout) -> vp::Verdict {
        std::vector<int> cuts;
        if (list.size() >= 3 && layout % 3 == 1) cuts.push_back(1);
        else if (list.size() >= 3 && layout % 3 == 2) cuts.push_back(2);
        const bool local = layout & 1;
        Acl::Node *a = build("vpE" + std::to_string(++aclCounter), local ? "localip" : "src", list, cuts);
        if (!a) { resetAcls(); return vp::fail("ip:acl-not-created"); }
        int hits = 0, misses = 0;
        vp::Verdict v = judge(a, nullptr, local, list, U.probes, hits, misses);
        resetAcls();
        if (!v.ok) {
            std::string txt;
            for (const auto &s : list) txt += valueText(s) + " ";
            v.detail = "list " + txt + v.detail;
        }
        return v;
    };
    std::vector<Value> list = {U.values[c.i]};
    if (c.u == 3) {
        list.push_back(U.values[c.j]);
        list.push_back(U.values[c.k]);
        for (int l = 0; l < nvals; ++l) {
            list.resize(3);
            list.push_back(U.values[l]);
            const vp::Verdict v = one(list, c.k + l);
            if (!v.ok) return v;
        }
        return vp::pass();
    }
    if (c.j == nvals) return one(list, c.i);
    list.push_back(U.values[c.j]);
    vp::Verdict v = one(list, c.i + c.j);
    if (!v.ok) return v;
    for (int k = 0; k < nvals; ++k) {
        list.resize(2);
        list.push_back(U.values[k]);
        v = one(list, k);
        if (!v.ok) return v;
    }
    return vp::pass();
}

} // namespace

static void registerAll()
{
    for (auto &l : Debug::Levels) l = getenv("VP_DEBUG") ? atoi(getenv("VP_DEBUG")) : -1; // the stub debug stream would print the merge warnings to stderr
    Acl::RegisterMaker("src", [](Acl::TypeName)->Acl::Node* { return new ACLSourceIP; });
    Acl::RegisterMaker("localip", [](Acl::TypeName)->Acl::Node* { return new ACLLocalIP; });
    vp::add<RCase>("random_ip_lists", genR(), checkR, showR, parseR, 3.0);
    vp::add<ECase>("small_scope_exhaustive", genE(), checkE, showE, parseE, 1.0);
}

VP_MAIN(registerAll)
