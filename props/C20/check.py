"""C20 Successful unsafe requests invalidate cached responses (target URI, Location, Content-Location same-host)."""
import posixpath
from urllib.parse import urldefrag, urljoin

from hypothesis import strategies as st

from vlib.e2e import httpref
from vlib.e2e.cachekit import fetch_url, usable
from vlib.e2e.env import ProxyEnv
from vlib.e2e_runner import Result

HOSTS = ["127.0.0.1", "localhost"]          # both resolve to the origin stub (hosts_file); different hosts for the cache
BODY_METHODS = ("POST", "PUT", "PATCH", "PROPPATCH")
# methods the statement is judged on: POST, PUT, DELETE + "other invalidating" = unsafe PATCH and a method of unknown safety
# ... plus unsafe methods Squid knows by name (RFC 4918 MOVE/PROPPATCH/MKCOL: RFC 9111 section 4.4 covers every unsafe method)
JUDGED_METHODS = ("POST", "PUT", "DELETE", "PATCH", "FOO", "MOVE", "PROPPATCH", "MKCOL")
FORMS = ["absolute", "abs-path", "rel", "dot-rel", "net-path", "query-only", "abs-path-dots", "absolute-scheme-case"]


def strategy(tp):
    loc = st.fixed_dictionaries({
        "target": st.sampled_from(["none", "none", "V", "V", "V", "W"]),
        "form": st.sampled_from(FORMS + ["absolute", "abs-path", "rel", "rel"]),
        "fragment": st.sampled_from([False, False, False, False, False, True]),
    })
    return st.fixed_dictionaries({
        "u_host": st.sampled_from([0, 0, 1]),
        "u_query": st.sampled_from([None, None, None, "x=1", "p=/q/r"]),
        "v_place": st.sampled_from(["same-dir", "same-dir", "other-dir", "deeper", "parent", "same-path-other-query"]),
        "v_query": st.sampled_from([None, None, "k=2"]),
        "method": st.sampled_from(["POST", "PUT", "DELETE", "PATCH", "FOO", "POST", "PUT", "DELETE", "LOCK", "MOVE", "PROPPATCH", "MKCOL"]),
        "status": st.sampled_from([200, 200, 201, 201, 202, 204, 301, 302, 303, 307, 308, 400, 404, 409, 500, 503]),
        "location": loc,
        "content_location": loc,
        "req_body_len": st.sampled_from([0, 1, 100, 5000]),
        "resp_body_len": st.sampled_from([0, 10, 3000]),
        "order": st.permutations(["U", "V", "W"]),
        "vary": st.sampled_from([False, False, False, True]),
        "get_body_len": st.sampled_from([10, 5000]),
    })


def setup(ctx):
    return ProxyEnv(ctx, cache_mem="64 MB")


def teardown(env):
    env.close()


def _reference(form, base_url, target_url, tpath, tquery):
    """A URI reference of the requested form that (by RFC 3986 section 5) resolves to target_url against base_url.
    -> (reference text, form actually used)"""
    scheme, rest = target_url.split("://", 1)
    authority, pathq = rest.split("/", 1)
    pathq = "/" + pathq
    base_path = base_url.split("://", 1)[1].split("/", 1)[1].split("?", 1)[0]
    base_dir = posixpath.dirname("/" + base_path)
    same_host = base_url.split("://", 1)[1].split("/", 1)[0] == authority
    q = ("?" + tquery) if tquery else ""
    if not same_host and form not in ("absolute", "net-path", "absolute-scheme-case"):
        form = "absolute"
    if form == "query-only" and not ("/" + base_path == tpath and tquery):
        form = "rel"
    if form == "absolute":
        return target_url, form
    if form == "absolute-scheme-case":
        return scheme.upper() + "://" + authority + pathq, form
    if form == "net-path":
        return "//" + authority + pathq, form
    if form == "abs-path":
        return pathq, form
    if form == "abs-path-dots":
        d, leaf = posixpath.split(tpath)
        return d + "/zz/../" + leaf + q, form
    if form == "query-only":
        return q, form
    rel = posixpath.relpath(tpath, base_dir)
    if form == "dot-rel":
        rel = "./" + rel
    # class of a relative-path reference: with or without "." / ".." segments
    return rel + q, ("rel-dots" if rel.startswith("./") or "../" in rel else "rel-plain")


def execute(env, sc):
    r = Result()
    ns = "/" + env.ns()
    port = env.origin.port
    uh = HOSTS[sc["u_host"]]
    wh = HOSTS[1 - sc["u_host"]]
    u_path = ns + "/a/u"
    u_target = u_path + ("?" + sc["u_query"] if sc["u_query"] else "")
    v_query = sc["v_query"]
    place = sc["v_place"]
    if place == "same-path-other-query":
        v_path, v_query = u_path, "k=2"
    else:
        v_path = {"same-dir": ns + "/a/v", "other-dir": ns + "/b/v", "deeper": ns + "/a/c/v", "parent": ns + "/v"}[place]
    v_target = v_path + ("?" + v_query if v_query else "")
    w_path = ns + "/a/w"
    urls = {"U": "http://%s:%d%s" % (uh, port, u_target), "V": "http://%s:%d%s" % (uh, port, v_target), "W": "http://%s:%d%s" % (wh, port, w_path)}
    targets = {"U": u_target, "V": v_target, "W": w_path}

    # ---- what the unsafe response will say
    resp_headers = []
    named = {}       # 'V'/'W' -> (header name, form, fragment) of the first header naming it
    for hname, key in (("Location", "location"), ("Content-Location", "content_location")):
        spec = sc[key]
        if spec["target"] == "none":
            continue
        t = spec["target"]
        ref, form = _reference(spec["form"], urls["U"], urls[t], v_path if t == "V" else w_path, v_query if t == "V" else None)
        frag = spec["fragment"] and hname == "Location"     # Content-Location = absolute-URI / partial-URI: no fragment in its grammar
        if frag:
            ref += "#frag"
        # oracle side: RFC 3986 resolution (python's urljoin implements section 5.2) must give the intended URL
        resolved = urldefrag(urljoin(urls["U"], ref))[0]
        if resolved != urls[t]:
            r.label("excluded:reference-does-not-resolve-to-target")
            continue
        resp_headers.append([hname, ref])
        named.setdefault(t, (hname.lower(), form, frag))

    def arrivals(target):
        return env.origin.arrivals_for(target)

    def get_count(target):
        return sum(1 for a in arrivals(target) if a.msg.method == b"GET")

    def behaviour_for(name):
        target = targets[name]

        def beh(arr):
            if arr.msg.method == b"GET":
                n = sum(1 for a in arrivals(target) if a.msg.method == b"GET" and a.index <= arr.index)
                hs = [["Cache-Control", "max-age=3600"], ["X-Version", str(n)]]
                if sc["vary"] and name == "U":
                    hs.append(["Vary", "Accept-Encoding"])
                return {"status": 200, "headers": hs, "body_tag": "%s#%d" % (target, n), "body_len": sc["get_body_len"]}
            blen = 0 if sc["status"] == 204 else sc["resp_body_len"]
            return {"status": sc["status"], "reason": "Scripted", "headers": list(resp_headers), "body_tag": target + "#unsafe", "body_len": blen}
        return beh

    for name in ("U", "V", "W"):
        env.origin.script(targets[name], behaviour_for(name))

    # ---- cache U, V, W and confirm each is served without an origin arrival
    cached = {}
    for name in ("U", "V", "W"):
        for _ in range(2):
            m = fetch_url(env, urls[name])
            if not usable(m, r):
                env.health(r)
                return r
        cached[name] = get_count(targets[name]) == 1 and m.status == 200 and m.complete and m.body == httpref.keyed_stream(targets[name] + "#1", sc["get_body_len"])
    if not cached["U"]:
        r.label("U-not-cached-beforehand")

    # ---- the unsafe request on U
    method = sc["method"]
    body = httpref.keyed_stream(ns + "#req", sc["req_body_len"]) if method in BODY_METHODS else None
    m = fetch_url(env, urls["U"], [("Content-Type", "application/octet-stream")] if body is not None else [], method=method, body=body)
    if not usable(m, r):
        env.health(r)
        return r
    unsafe_arrivals = [a for a in arrivals(u_target) if a.msg.method == method.encode()]
    if m.status != sc["status"] or len(unsafe_arrivals) != 1:
        # the proxy answered by itself or altered the status: the precondition "non-error response to the unsafe request" is not established
        r.label("unsafe-request-not-answered-by-origin-status:%s" % m.status)
        r.inconclusive = "unsafe request was not answered with the scripted origin status"
        env.health(r)
        return r
    non_error = 200 <= sc["status"] < 400
    judged = non_error and method in JUDGED_METHODS
    r.label("method:" + method)
    r.label("status-class:%dxx" % (sc["status"] // 100))
    if not judged:
        r.label("not-judged:error-status" if not non_error else "not-judged:method-" + method)

    # ---- follow-up GETs
    r.sub_evaluations = 0
    for name in sc["order"]:
        before = get_count(targets[name])
        m = fetch_url(env, urls[name])
        if not usable(m, r):
            break
        arrived = get_count(targets[name]) > before
        is_named = name in named
        if name == "W":
            if is_named and cached["W"]:
                r.label("other-host-named:" + ("invalidated" if arrived else "kept"))
            continue
        if name == "V" and not is_named:
            if cached["V"]:
                r.label("unnamed-V:" + ("invalidated" if arrived else "kept"))
            continue
        if not cached[name]:
            continue
        if not judged:
            r.label("unjudged-%s:%s" % (name, "invalidated" if arrived else "kept"))
            continue
        r.sub_evaluations += 1
        if name == "U":
            sig = "not-invalidated:target-uri:" + method
            r.label("judged:U")
        else:
            hname, form, frag = named["V"]
            # the input class of the reference is the signature (the header that carried it is in the detail); one class per case,
            # the most specific first, so that a known finding for one class cannot hide another
            if frag:
                cls = "with-fragment"
            elif form in ("rel-plain", "rel-dots") and sc["u_query"] and "/" in sc["u_query"]:
                cls = "relative-path-reference:base-query-has-slash"     # RFC 3986 5.2.3 merges with the base *path*; a '/' in the base query must not matter
            elif form in ("rel-plain", "rel-dots", "query-only"):
                cls = "relative-path-reference:" + form
            else:
                cls = form
            sig = "not-invalidated:named-url:" + cls
            r.label("judged:V:" + cls)
            r.label("judged:V-by-" + hname)
            if form in ("rel-plain", "rel-dots", "query-only", "abs-path", "abs-path-dots", "net-path"):
                r.nontrivial = True
        if not arrived:
            r.fail(sig, "%s %s -> %d %r; follow-up GET %s was served without an origin arrival (X-Version=%r)" % (
                method, urls["U"], sc["status"], resp_headers, urls[name], m.get("x-version")))
        elif m.status == 200 and m.complete and m.body == httpref.keyed_stream(targets[name] + "#1", sc["get_body_len"]):
            r.fail("old-response-served-after-invalidation:" + name, "GET %s reached the origin but the client got the version cached before the %s" % (urls[name], method))
    r.sub_evaluations = max(1, r.sub_evaluations)
    env.health(r)
    return r
