// C40 (address half) FTP PORT/PASV-style and EPRT/EPSV-style address strings yield an address only when
// every component is in range.
// Domain : "h1,h2,h3,h4,p1,p2[trailing text]" strings for Ftp::ParseIpPort (with and without the forceIp that
//          Ftp::Client passes when ftp_sanitycheck is on) and "<d>proto<d>addr<d>port<d>" strings for
//          Ftp::ParseProtoIpPort, components from {0,1,255,256,-1,65535,65536,2^31,2^32+k,20 digits, empty,
//          spaces, signs, trailing text}; ftp_sanitycheck on and off.
// Oracle : the statement's direction only.  An independent range-checked reader (128-bit values) decodes the
//          string; accepted => it finds every component in range (octets 0-255, p1/p2 0-255, port 1-65535
//          and >= 1024 with ftp_sanitycheck, protocol 1/2 matching the address family) and the returned
//          address and port equal the decoded ones.  in-range => accepted is only a generator-quality gate.
// Callers' preconditions: buf is a non-empty NUL-terminated string; addr is a freshly constructed
// Ip::Address (FtpClient.cc, FtpServer.cc); forceIp is nil or the numeric peer address of the control
// connection.  Directory-listing lines (ftpListParseParts) are not covered by this check.
#include "squid.h"
#include "ftp/Parsing.h"
#include "ip/Address.h"
#include "ip/tools.h"
#include "SquidConfig.h"

#include "verif_pbt.h"

#include <arpa/inet.h>

extern "C" const char *__asan_default_options() { return "quarantine_size_mb=8:thread_local_quarantine_size_kb=64:allocator_release_to_os_interval_ms=-1"; }

using i128 = __int128;

struct Case {
    int which = 0;        // 0 ParseIpPort, 1 ParseProtoIpPort
    std::string buf;
    std::string forceIp;  // empty = nil
    int sanity = 1;       // ftp_sanitycheck
};
static std::string show(const Case &c) { return vp::Writer().i("which", c.which).s("buf", c.buf).s("forceIp", c.forceIp).i("sanity", c.sanity).str(); }
static Case parse(const std::string &t) { vp::Reader r(t); Case c; c.which = static_cast<int>(r.i("which")); c.buf = r.s("buf"); c.forceIp = r.s("forceIp"); c.sanity = static_cast<int>(r.i("sanity")); return c; }

// ------------------------------------------------------------------ reference reader

/// [ws] [sign] digits at s[i]; value saturates at +-10^30
static bool readInt(const std::string &s, size_t &i, i128 &v)
{
    size_t p = i;
    while (p < s.size() && (s[p] == ' ' || (s[p] >= '\t' && s[p] <= '\r'))) ++p;
    bool neg = false;
    if (p < s.size() && (s[p] == '+' || s[p] == '-')) { neg = s[p] == '-'; ++p; }
    if (p >= s.size() || s[p] < '0' || s[p] > '9') return false;
    i128 acc = 0;
    const i128 cap = static_cast<i128>(1000000000000000ULL) * 1000000000000000ULL;
    while (p < s.size() && s[p] >= '0' && s[p] <= '9') { if (acc < cap) acc = acc * 10 + (s[p] - '0'); ++p; }
    v = neg ? -acc : acc;
    i = p;
    return true;
}

static bool beyondInt(i128 v) { return v > 2147483647 || v < -static_cast<i128>(2147483648LL); }

static std::string bytesOf(const Ip::Address &a) { struct in6_addr b; a.getInAddr(b); return std::string(reinterpret_cast<const char *>(&b), 16); }
static std::string mapped4(const unsigned char *b4) { std::string s(16, '\0'); s[10] = s[11] = static_cast<char>(0xff); memcpy(&s[12], b4, 4); return s; }

// ------------------------------------------------------------------ generator

static rc::Gen<std::string> component(bool octetLike)
{
    using namespace rc;
    return gen::exec([octetLike]() -> std::string {
        const int k = *vp::range<int>(0, 19);
        if (k < 11) return std::to_string(*vp::range<int>(octetLike ? 1 : 0, 255));
        if (k == 11) return *gen::element(std::string("0"), std::string("1"), std::string("255"), std::string("127"), std::string("4"), std::string("8"));
        if (k == 12) return *gen::element(std::string("256"), std::string("257"), std::string("1000"), std::string("65535"), std::string("65536"), std::string("2147483647"));
        if (k == 13) return *gen::element(std::string("-1"), std::string("-255"), std::string("-256"), std::string("-0"), std::string("-2147483648"));
        if (k == 14) { // wraps modulo 2^32 into the valid range when read with %d
            const long long base = *gen::element<long long>(4294967296LL, 8589934592LL, -4294967296LL, 4294967296LL * 1000);
            return std::to_string(base + *vp::range<int>(0, 300));
        }
        if (k == 15) return *gen::element(std::string("2147483648"), std::string("4294967295"), std::string("9223372036854775807"), std::string("9223372036854775808"), std::string("18446744073709551617"), std::string("99999999999999999999"), std::string("-99999999999999999999"), std::string("340282366920938463463374607431768211457"));
        if (k == 16) return *gen::element(std::string(""), std::string(" "), std::string("x"), std::string("-"), std::string("+"), std::string("0x10"), std::string("1e2"), std::string("1.5"));
        if (k == 17) return *gen::element(std::string(" 5"), std::string("+5"), std::string("05"), std::string("005"), std::string("\t7"), std::string("0000000000000000000008"), std::string("+0"), std::string(" -1"));
        return std::to_string(*vp::range<int>(0, 70000));
    });
}

static rc::Gen<Case> gen()
{
    using namespace rc;
    return gen::exec([]() {
        Case c;
        c.which = *vp::range<int>(0, 1);
        c.sanity = *vp::range<int>(0, 2) ? 1 : 0;
        if (c.which == 0) {
            // mostly plain components so that many strings are accepted; each position may go wrong
            std::string s;
            const int bad = *gen::weightedElement<int>({{9, -1}, {1, 0}, {1, 1}, {1, 2}, {1, 3}, {2, 4}, {2, 5}, {1, 6}});
            // port boundary pairs (p1,p2): 0, 1, 1023, 1024, 65535
            const int pb = *gen::weightedElement<int>({{12, -1}, {1, 0}, {1, 1}, {1, 2}, {1, 3}, {1, 4}});
            static const int pbv[5][2] = {{0, 0}, {0, 1}, {3, 255}, {4, 0}, {255, 255}};
            for (int i = 0; i < 6; ++i) {
                if (pb >= 0 && i >= 4 && bad != i && bad != 6) s += std::to_string(pbv[pb][i - 4]);
                else if (i == bad || bad == 6) s += *component(i < 4);
                else if (i == 4) s += std::to_string(*gen::weightedElement<int>({{6, 0}, {1, 1}, {1, 2}}) == 0 ? *vp::range<int>(4, 255) : *vp::range<int>(0, 4));
                else s += std::to_string(*vp::range<int>(i < 4 ? 1 : 0, 255));
                if (i < 5) s += *gen::weightedElement<std::string>({{80, ","}, {1, " ,"}, {1, ", "}, {1, ";"}, {1, ""}, {1, ",,"}, {1, "."}});
            }
            s += *gen::element(std::string(""), std::string(""), std::string(")"), std::string(")."), std::string(" x"), std::string(",7"), std::string("9"), std::string("\r\n"));
            if (*vp::range<int>(0, 30) == 0) s = *gen::element(std::string("1,2,3,4,5"), std::string(","), std::string("a"), std::string("(1,2,3,4,5,6)"), std::string("1,2,3,4,5,6,7,8"));
            c.buf = s;
            // Ftp::Client passes the peer address when ftp_sanitycheck is on; the server side never does
            if (c.sanity ? *vp::range<int>(0, 3) != 0 : *vp::range<int>(0, 5) == 0)
                c.forceIp = *gen::element(std::string("10.1.2.3"), std::string("192.168.0.1"), std::string("127.0.0.1"), std::string("2001:db8::1"), std::string("::1"));
        } else {
            const char d = *gen::weightedElement<char>({{12, '|'}, {1, '!'}, {1, '#'}, {1, ' '}, {1, '1'}});
            const int fam = *gen::weightedElement<int>({{3, 1}, {3, 2}});
            std::string proto = std::to_string(fam);
            std::string addr;
            {
                const std::string raw = *gen::container<std::string>(fam == 1 ? 4 : 16, gen::arbitrary<char>());
                char tmp[80];
                inet_ntop(fam == 1 ? AF_INET : AF_INET6, raw.data(), tmp, sizeof(tmp));
                addr = tmp;
            }
            std::string port = std::to_string(*gen::weightedElement<int>({{6, 0}, {1, 1}}) == 0 ? *vp::range<int>(1024, 65535) : *vp::range<int>(0, 1100));
            const int mut = *gen::weightedElement<int>({{8, 0}, {2, 1}, {3, 2}, {5, 3}, {1, 4}, {1, 5}});
            if (mut == 1) proto = *gen::element(std::string("0"), std::string("3"), std::string(""), std::string("01"), std::string("+1"), std::string(" 2"), std::string("-1"), std::string("1x"), std::string("12"), std::string("4294967297"), std::string("4294967298"), std::string("18446744073709551617"));
            if (mut == 2) addr = *gen::element(std::string("0.0.0.0"), std::string("::"), std::string("1.2.3"), std::string("256.1.1.1"), std::string("1.2.3.4.5"), std::string("010.1.1.1"), std::string("1.2.3.-4"), std::string("::ffff:1.2.3.4"), std::string("10.0.0.1"), std::string("2001:db8::7"), std::string("g::1"), std::string(""), std::string("localhost"), std::string("1.2.3.4 "), std::string("12345::1"), std::string("1:2:3:4:5:6:7:8:9"), std::string("0000000000000000000000000000000000000000000000000000000000000001.2.3.4"));
            if (mut == 3) port = *component(false);
            if (mut == 4) proto = std::to_string(3 - fam); // family mismatch
            std::string s;
            s += d; s += proto; s += d; s += addr; s += d; s += port;
            if (mut != 5) s += d;
            s += *gen::element(std::string(""), std::string(""), std::string(""), std::string("x"), std::string("|"), std::string("\r\n"));
            c.buf = s;
        }
        return c;
    });
}

// ------------------------------------------------------------------ oracle

static vp::Verdict checkIpPort(const Case &c, vp::Ctx &ctx)
{
    Ip::Address addr; // callers pass a freshly constructed address
    const bool accepted = Ftp::ParseIpPort(c.buf.c_str(), c.forceIp.empty() ? nullptr : c.forceIp.c_str(), addr);

    // reference: six integers separated by commas at the start of the string
    i128 v[6];
    bool six = true;
    size_t i = 0;
    for (int k = 0; k < 6 && six; ++k) {
        if (!readInt(c.buf, i, v[k])) six = false;
        else if (k < 5) { if (i < c.buf.size() && c.buf[i] == ',') ++i; else six = false; }
    }
    bool octetsOk = six, portPartsOk = six, wraps = false;
    if (six) {
        for (int k = 0; k < 4; ++k) if (v[k] < 0 || v[k] > 255) octetsOk = false;
        for (int k = 4; k < 6; ++k) if (v[k] < 0 || v[k] > 255) portPartsOk = false;
        for (int k = 0; k < 6; ++k) if (beyondInt(v[k])) wraps = true;
    }
    const long port = six && portPartsOk ? static_cast<long>(v[4]) * 256 + static_cast<long>(v[5]) : -1;
    const bool portOk = portPartsOk && port >= 1 && port <= 65535 && (!c.sanity || port >= 1024);
    const bool inRange = six && octetsOk && portOk;

    ctx.label(c.forceIp.empty() ? "ipport:no-forceIp" : "ipport:forceIp");
    ctx.label(inRange ? "ipport:ref-in-range" : "ipport:ref-out-of-range");
    if (accepted) ctx.label("ipport:accepted");
    if (inRange && accepted) ctx.label("ipport:in-range-accepted");
    if (!inRange) ctx.nontrivial();

    if (!accepted) return vp::pass(); // the statement does not promise acceptance
    if (!six) return vp::fail("ipport:accepted-without-six-comma-separated-numbers", vp::esc(c.buf));
    if (wraps) return vp::fail("ipport:component-beyond-int-range-accepted", vp::esc(c.buf));
    if (!octetsOk)
        return vp::fail(c.forceIp.empty() ? "ipport:octet-out-of-range-accepted" : "ipport:octet-out-of-range-accepted-with-forceIp", vp::esc(c.buf));
    if (!portPartsOk) return vp::fail("ipport:port-octet-out-of-range-accepted", vp::esc(c.buf));
    if (!portOk) return vp::fail(port == 0 ? "ipport:port-zero-accepted" : "ipport:reserved-port-accepted-despite-sanitycheck", vp::esc(c.buf));
    // the value
    if (addr.port() != port) return vp::fail("ipport:port-differs", std::to_string(addr.port()) + " want " + std::to_string(port));
    std::string want;
    if (c.forceIp.empty()) {
        const unsigned char b4[4] = {static_cast<unsigned char>(v[0]), static_cast<unsigned char>(v[1]), static_cast<unsigned char>(v[2]), static_cast<unsigned char>(v[3])};
        want = mapped4(b4);
    } else {
        unsigned char b4[4], b6[16];
        if (inet_pton(AF_INET, c.forceIp.c_str(), b4) == 1) want = mapped4(b4);
        else if (inet_pton(AF_INET6, c.forceIp.c_str(), b6) == 1) want.assign(reinterpret_cast<const char *>(b6), 16);
        else { ctx.excluded("forceIp is not a numeric address (hand-written replay)"); return vp::pass(); }
    }
    if (bytesOf(addr) != want) return vp::fail("ipport:address-differs", vp::esc(c.buf));
    return vp::pass();
}

static vp::Verdict checkProtoIpPort(const Case &c, vp::Ctx &ctx)
{
    Ip::Address addr;
    const bool accepted = Ftp::ParseProtoIpPort(c.buf.c_str(), addr);

    // reference: <d> proto <d> address <d> port <d>
    const std::string &s = c.buf;
    bool emptyPort = false;
    bool shape = false, protoOk = false, addrStrict = false, addrLenient = false, portOk = false, wraps = false;
    i128 proto = 0, port = -1;
    std::string want;
    int fam = 0;
    if (!s.empty()) {
        const char d = s[0];
        size_t i = 1;
        if (readInt(s, i, proto) && i < s.size() && s[i] == d) {
            const size_t a0 = i + 1;
            const size_t a1 = s.find(d, a0);
            if (a1 != std::string::npos) {
                const std::string at = s.substr(a0, a1 - a0);
                size_t p = a1 + 1;
                emptyPort = p < s.size() && (s[p] == d || s[p] == '|');
                if (readInt(s, p, port) && p < s.size() && (s[p] == d || s[p] == '|')) { // the closing delimiter is not a component
                    shape = true;
                    protoOk = proto == 1 || proto == 2;
                    unsigned char b4[4], b6[16];
                    if (inet_pton(AF_INET, at.c_str(), b4) == 1) { addrStrict = true; fam = 1; want = mapped4(b4); }
                    else if (inet_pton(AF_INET6, at.c_str(), b6) == 1) {
                        addrStrict = true; fam = 2; want.assign(reinterpret_cast<const char *>(b6), 16);
                        static const char pfx[12] = {0, 0, 0, 0, 0, 0, 0, 0, 0, 0, '\xff', '\xff'};
                        if (memcmp(b6, pfx, 12) == 0) { addrStrict = false; addrLenient = true; } // v4-mapped text: one representation for both families
                    } else addrLenient = true; // other numeric forms getaddrinfo() accepts ("1.2.3", "010.1.1.1"): not judged
                    portOk = port >= 1 && port <= 65535 && (!c.sanity || port >= 1024);
                    wraps = beyondInt(port) || beyondInt(proto);
                }
            }
        }
    }
    const bool inRange = shape && protoOk && addrStrict && fam == proto && portOk;
    ctx.label(inRange ? "proto:ref-in-range" : "proto:ref-out-of-range");
    if (accepted) ctx.label("proto:accepted");
    if (inRange && accepted) ctx.label("proto:in-range-accepted");
    if (!inRange) ctx.nontrivial();

    if (!accepted) return vp::pass();
    if (!shape && emptyPort) return vp::fail("proto:empty-port-accepted", vp::esc(s));
    if (!shape) return vp::fail("proto:accepted-without-delimited-proto-address-port", vp::esc(s));
    if (wraps) return vp::fail("proto:component-beyond-int-range-accepted", vp::esc(s));
    if (!protoOk) return vp::fail("proto:unknown-protocol-accepted", vp::esc(s));
    if (!portOk) {
        if (port == 0) return vp::fail("proto:port-zero-accepted", vp::esc(s));
        if (port > 65535) return vp::fail("proto:port-beyond-65535-accepted", vp::esc(s) + " gave port " + std::to_string(addr.port()));
        if (port < 0) return vp::fail("proto:negative-port-accepted", vp::esc(s));
        return vp::fail("proto:reserved-port-accepted-despite-sanitycheck", vp::esc(s));
    }
    if (addrLenient) { ctx.excluded("address text in a form the statement does not settle (v4-mapped, short or zero-padded dotted forms)"); return vp::pass(); }
    if (fam != proto) return vp::fail("proto:protocol-family-mismatch-accepted", vp::esc(s));
    if (addr.port() != static_cast<long>(port)) return vp::fail("proto:port-differs", std::to_string(addr.port()));
    if (bytesOf(addr) != want) return vp::fail("proto:address-differs", vp::esc(s));
    return vp::pass();
}

static vp::Verdict check(const Case &c, vp::Ctx &ctx)
{
    Ip::EnableIpv6 = IPV6_SPECIAL_V4MAPPING;
    Config.Ftp.sanitycheck = c.sanity;
    if (c.buf.empty() || c.buf.find('\0') != std::string::npos || c.buf.size() > 4000) { ctx.excluded("outside the callers' preconditions (empty, NUL or oversized buffer)"); return vp::pass(); }
    ctx.label(c.sanity ? "sanitycheck-on" : "sanitycheck-off");
    return c.which == 0 ? checkIpPort(c, ctx) : checkProtoIpPort(c, ctx);
}

#ifdef VP_FUZZ
static Case fuzzCase(FuzzedDataProvider &fdp)
{
    Case c;
    c.which = fdp.ConsumeIntegralInRange<int>(0, 1);
    c.sanity = fdp.ConsumeBool();
    if (c.which == 0 && fdp.ConsumeBool()) c.forceIp = fdp.ConsumeBool() ? "10.1.2.3" : "2001:db8::1";
    c.buf = fdp.ConsumeRemainingBytesAsString();
    c.buf.erase(std::remove(c.buf.begin(), c.buf.end(), '\0'), c.buf.end());
    return c;
}
#else
static std::function<Case(FuzzedDataProvider &)> fuzzCase = nullptr;
#endif

static void registerAll()
{
    vp::add<Case>("address_strings", gen(), check, show, parse, 1.0, fuzzCase);
}

VP_MAIN(registerAll)
