"""C40 (end-to-end half) FTP directory listings of any content are parsed without memory errors.

ftp:// URLs are fetched through the sanitizer-built proxy from a harness FTP server stub that serves generated and
mutated LIST output (UNIX ls -l with and without group, symlinks, DOS, EPLF, NetWare-like, "total" lines, free text).
Oracle: the proxy stays healthy (no ASan report, assertion, FATAL, exit) and the client receives either the generated
HTML page (complete) or a clean Squid error; a marker entry that opens every listing shows that the page was really
built from the served lines.
"""
import time

from hypothesis import strategies as st

from vlib.e2e import client, ftpstub
from vlib.e2e.env import ProxyEnv
from vlib.e2e_runner import Result

MONTHS = ["Jan", "Feb", "Mar", "Apr", "May", "Jun", "Jul", "Aug", "Sep", "Oct", "Nov", "Dec", "jan", "DEC", "Foo", "Sept"]
NAMES = ["file.txt", "dir", "a b c", " leading", "trailing ", ".", "..", "...", "", "-> x", "l -> t", "a -> b -> c", "x" * 200, "y" * 1100, "<b>&\"'", "%2e%2e/%2f", "a/b", "/abs",
         "\x01\x02\x7f", "\xff\xfe\xe9", "tab\there", "semi;type=a", "q?x=1#f", "caf\xe9", "-rw-r--r--", "Jan  1  2020", "total 5", ":", "\\", "\"", "'"]
SIZES = ["0", "1", "1024", "4294967295", "4294967296", "9223372036854775807", "9223372036854775808", "99999999999999999999999", "-1", "", "1e9", "0x10", "12a"]
PERMS = ["-rw-r--r--", "drwxr-xr-x", "lrwxrwxrwx", "crw-rw----", "brw-rw----", "srwxrwxrwx", "prw-r--r--", "-", "d", "l", "?---------", "-rwsr-sr-t+", "drwxr-xr-x.", ""]
DAYS = ["1", " 1", "01", "31", "32", "0", "99", "", "1st"]
YEARS = ["2020", " 2020", "1970", "9999", "99999", "12:34", "00:00", "24:60", "1:2", "12:34:56", "", "abcd", ":"]
WS = [" ", "  ", "\t", "   ", " \t "]
# lines longer than the 4 KB line buffer stall the listing until read_timeout (a clean, but slow, error): kept rare
NAMES = NAMES * 12 + ["z" * 5000]


def _unix(draw_tokens):
    perm, links, owner, group, size, mon, day, year, name, sep1, sep2 = draw_tokens
    cols = [perm, links, owner] + ([group] if group is not None else []) + [size, mon]
    return " ".join(cols) + sep1 + day + sep2 + year + " " + name


unix_line = st.tuples(st.sampled_from(PERMS), st.sampled_from(["1", "12", "", "999999"]), st.sampled_from(["root", "u", "1000", "a b"]), st.sampled_from([None, "wheel", "g", "0"]),
                      st.sampled_from(SIZES), st.sampled_from(MONTHS), st.sampled_from(DAYS), st.sampled_from(YEARS), st.sampled_from(NAMES),
                      st.sampled_from([" ", "  "]), st.sampled_from([" ", "  "])).map(_unix)
dos_line = st.tuples(st.sampled_from(["04-05-70", "12-31-99", "1-1-1", "99-99-9999", "04/05/70", ""]), st.sampled_from(["09:33PM", "12:00AM", "9:3pm", "25:61XM", "09:33", ""]),
                     st.sampled_from(["<DIR>", "<dir>", "<DIR", "1234", "0", "99999999999999999999", ""]), st.sampled_from(NAMES), st.sampled_from(WS)).map(lambda t: t[0] + t[4] + t[1] + t[4] + "      " + t[2] + t[4] + t[3])
eplf_line = st.tuples(st.lists(st.sampled_from(["i8388621.29609", "m824255902", "m99999999999999999999", "m", "m-1", "m0x7fffffffffffffff", "mabc", "/", "r", "s1234", "s", "s99999999999999999999", "s-5", "", "up644", "zz", ","]),
                               min_size=0, max_size=7), st.sampled_from(NAMES), st.sampled_from(["\t", "", "\t\t", " "])).map(lambda t: "+" + ",".join(t[0]) + "," + t[2] + t[1])
netware_line = st.tuples(st.sampled_from(["d", "-", "l"]), st.sampled_from(["[R----F--]", "[RWCEAFMS]", "[", "[]"]), st.sampled_from(["supervisor", "x"]), st.sampled_from(SIZES), st.sampled_from(MONTHS),
                         st.sampled_from(DAYS), st.sampled_from(YEARS), st.sampled_from(NAMES)).map(lambda t: " ".join(t[:7]) + " " + t[7])
other_line = st.sampled_from(["total 12345", "total", "", " ", "\t", "Permission denied", "ls: cannot access", "+", "+,", "+\t", "x" * 1025, "w " * 600, "- " * 70, "Jan 1 2020", "Jan  1  2020 name",
                              "1 Jan 1 2020 n", "a b c Jan 1 2020", "a b 5 Jan 1 2020", "a b c 5 Jan 1 2020", "drwx 5 Jan 1", "drwx 1 u g 5 Jan", "04-05-70 09:33PM", "04-05-70 09:33PM <DIR>", "\x00abc", "abc\x00def"])

# lines around the tokeniser's 64-token limit (well under the 1024-byte limit that bypasses the tokeniser)
many_tok_line = st.tuples(st.integers(58, 90), st.sampled_from(["-", "a", "Jan", "1", "12:34", "x y"]), st.sampled_from([" ", "  ", "\t"])).map(lambda t: t[2].join([t[1]] * t[0]))

line_mut = st.one_of(
    st.tuples(st.just("none"), st.just(0), st.just(0)), st.tuples(st.just("none"), st.just(0), st.just(0)),
    st.tuples(st.just("droptok"), st.integers(0, 12), st.just(0)),
    st.tuples(st.just("duptok"), st.integers(0, 12), st.integers(1, 30)),
    st.tuples(st.just("jointok"), st.integers(0, 12), st.just(0)),
    st.tuples(st.just("tabs"), st.just(0), st.just(0)),
    st.tuples(st.just("trunc"), st.integers(0, 999), st.just(0)),
    st.tuples(st.just("sub"), st.integers(0, 999), st.integers(0, 255)),
    st.tuples(st.just("pad"), st.integers(0, 999), st.sampled_from([1, 100, 1000, 1024] * 8 + [4090, 4096, 9000, 70000])),
).map(list)


def apply_mut(line, m):
    op, a, b = m
    if op == "none":
        return line
    if op in ("droptok", "duptok", "jointok"):
        toks = line.split(" ")
        if not toks:
            return line
        i = a % len(toks)
        if op == "droptok":
            del toks[i]
        elif op == "duptok":
            toks[i:i] = [toks[i]] * b
        elif i + 1 < len(toks):
            toks[i:i + 2] = [toks[i] + toks[i + 1]]
        return " ".join(toks)
    if op == "tabs":
        return line.replace(" ", "\t")
    p = (len(line) * a) // 1000
    if op == "trunc":
        return line[:p]
    if op == "sub" and line:
        c = chr(b) if b not in (10, 13) else "?"
        return line[:min(p, len(line) - 1)] + c + line[min(p, len(line) - 1) + 1:]
    if op == "pad":
        return line[:p] + "P" * b + line[p:]
    return line


def strategy(tp):
    n = int(tp.get("lines", 50))
    line = st.tuples(st.one_of(unix_line, unix_line, unix_line, dos_line, eplf_line, netware_line, other_line, many_tok_line), line_mut).map(lambda t: apply_mut(t[0], t[1]))
    return st.fixed_dictionaries({
        "lines": st.lists(line, min_size=0, max_size=n),
        "eol": st.sampled_from(["\r\n", "\r\n", "\n", "\r", "\r\r\n"]),
        "final_eol": st.booleans(),
        "segments": st.lists(st.one_of(st.integers(1, 50), st.integers(100, 5000)), min_size=0, max_size=6),
        "pauses": st.lists(st.sampled_from([0, 0, 1, 3]), min_size=0, max_size=6),
        "slash": st.sampled_from([True, True, False]),
        "typecode": st.sampled_from(["", "", "", ";type=d", ";type=a", ";type=i"]),
        "epsv": st.booleans(),
        "subdirs": st.lists(st.sampled_from(["pub", "a b", "%2e%2e", "~user", "x" * 200, "<i>"]), min_size=0, max_size=3),
        "messages": st.lists(st.sampled_from(["Welcome", "<b>bold</b> & \"q\"", "x" * 2000, "", "  indented", "220 fake code", "\xff\xfe"]), min_size=0, max_size=4),
        "abort": st.one_of(st.none(), st.none(), st.none(), st.integers(1, 999)),
        # a LIST transfer without a single byte (empty directory): rare on purpose, see known_findings.json
        "empty": st.sampled_from([False] * 24 + [True]),
        "nlst_fallback": st.sampled_from([False, False, False, True]),
    })


def setup(ctx):
    stub = ftpstub.FtpServer()
    conf = "ftp_user anonymous@verif.test\nread_timeout 6 seconds\nconnect_timeout 5 seconds\ncache deny all\n"
    if ctx.worker % 4 == 3:
        conf += "ftp_list_width 8\nftp_telnet_protocol off\n"
    env = ProxyEnv(ctx, conf=conf, cache_mem="0 MB")
    env.ftp = stub
    return env


def teardown(env):
    try:
        env.ftp.stop()
    finally:
        env.close()


def execute(env, sc):
    r = Result()
    ns = env.ns()
    marker = "MARK" + ns.replace("-", "")
    lines = ["-rw-r--r-- 1 u g 5 Jan  1  2020 " + marker] + list(sc["lines"])
    data = sc["eol"].join(lines).encode("latin-1") + (sc["eol"].encode() if sc["final_eol"] else b"")
    beh = {"listing": data, "data_segments": sc["segments"], "data_pause_ms": sc["pauses"], "epsv": sc["epsv"]}
    if sc["messages"]:
        beh["login_msg"] = list(sc["messages"]) + ["logged in"]
        beh["cwd_msg"] = list(sc["messages"]) + ["ok"]
    if sc.get("empty"):
        beh["listing"] = b""
    elif sc["abort"] is not None:
        beh["data_abort_after"] = max(1, len(data) * sc["abort"] // 1000)
    if sc["nlst_fallback"]:
        beh["list_code"] = 550          # LIST refused: Squid retries with NLST (one name per line, the "machine readable" branch)
    env.ftp.script(ns, beh)
    path = "/" + "/".join([ns] + sc["subdirs"]) + ("/" if sc["slash"] else "") + sc["typecode"]
    url = "ftp://127.0.0.1:%d%s" % (env.ftp.port, path.replace(" ", "%20").replace("<", "%3C").replace(">", "%3E"))
    try:
        c = client.Conn(env.port, timeout=30)
    except OSError:
        # the proxy is not listening: it died after the previous health check (reported now) or is still starting
        env.ftp.forget(ns)
        if env.health(r):
            r.inconclusive = "could not connect to the proxy"
        return r
    try:
        c.send(("GET %s HTTP/1.1\r\nHost: 127.0.0.1:%d\r\nConnection: close\r\n\r\n" % (url, env.ftp.port)).encode("latin-1"))
        m = c.read_response(b"GET", timeout=30)
    finally:
        c.close()
    sessions = env.ftp.sessions_for(ns)
    r.sub_evaluations = max(1, len(lines))
    listed = any(s.listed for s in sessions)
    if listed:
        r.label("listing-served")
    if any(v == "NLST" for s in sessions for v, _ in s.commands):
        r.label("nlst-used")
    if m is None or getattr(m, "timed_out", False):
        r.inconclusive = "client timed out"
    elif getattr(m, "bad", False) or m.status is None:
        deadline = time.time() + 3
        while time.time() < deadline and not env.squid.health_problems():
            time.sleep(0.1)         # a dying proxy needs a moment to leave its evidence
        if env.squid.health_problems():
            pass            # reported by env.health() below
        else:
            r.fail("ftp-listing:no-parsable-response", "the client received %r for %s (sessions %s)" % (bytes(c.rbuf[:200]), url, sessions))
    else:
        ctype = (m.get("Content-Type") or b"").decode("latin-1").lower()
        if m.has("X-Squid-Error") and m.status >= 400:
            r.label("clean-error:" + m.get("X-Squid-Error").decode("latin-1").split(" ")[0])
            if not m.complete:
                r.fail("ftp-listing:error-page-truncated", "status %s, error %r, body %d bytes" % (m.status, m.get("X-Squid-Error"), len(m.body or b"")))
        elif m.status == 200 and "text/html" in ctype:
            if not m.complete and m.framing != "close":
                r.fail("ftp-listing:html-page-truncated", "framing %s, %d body bytes for %s; sessions %s" % (m.framing, len(m.body or b""), url, sessions))
            else:
                r.label("html-page-delivered")
                body = m.body or b""
                if marker.encode() in body:
                    r.label("marker-entry-in-page")
                    if listed and len(sc["lines"]) >= 1:
                        r.nontrivial = True
                if b"</html>" not in body.lower() and m.framing != "close":
                    r.label("page-without-closing-tag")
        else:
            r.label("other-response:%s" % m.status)
    env.ftp.forget(ns)
    env.health(r)
    return r
