// C49 In-memory object data returns exactly what was written.
// Domain : sequences of write(offset,len) -- sparse, adjacent, gap-filling, appending; never overlapping --,
//          freeDataUpto(x), copy(offset,len) starting at a present byte, hasContigousContentRange(a,b),
//          lowestOffset()/endOffset() on one mem_hdr; offsets up to ~9 pages, lengths up to 3 pages.
// Oracle : byte array with a presence state per offset (absent / present / maybe).  "maybe" = a byte that was
//          written and lies below a later freeDataUpto() offset: the statement only promises that releasing
//          never removes bytes AT OR AFTER the offset, so such a byte may or may not still be there.
//          copy() must return exactly the written bytes, at least up to the first byte that is not certainly
//          present and at most up to the first certainly absent byte; contiguity answers must agree with the
//          presence map; bytes >= x survive freeDataUpto(x).
//
// Caller preconditions (DESIGN.md section 4; the implementation asserts/fatal()s on them), enforced when the
// commands are interpreted against the model, so shrinking can never produce an illegal call:
//  * writes never overlap existing data (they are clipped to the absent stretch found at/after the drawn
//    offset, and never touch "maybe" bytes);
//  * copy() is never asked for an offset that is absent (or "maybe");
//  * copy()/write() lengths are > 0.
#include "squid.h"
#include "base/Range.h"
#include "mem_node.h"
#include "stmem.h"
#include "StoreIOBuffer.h"

#include "verif_pbt.h"
#include "vp_seq.h"

extern "C" const char *__asan_default_options() { return "quarantine_size_mb=16:malloc_context_size=6"; }

static const int64_t Page = 4096;
static const int64_t MaxOff = 9 * Page + 123; // exclusive upper bound of the modelled offsets

struct Cmd {
    std::string op; // write append free copy contig offsets
    long long x = 0, y = 0, tag = 0;
};
struct Case { std::vector<Cmd> cmds; };

static std::string show(const Case &c)
{
    vp::Writer w;
    for (const auto &m : c.cmds) w.s(m.op, std::to_string(m.x) + " " + std::to_string(m.y) + " " + std::to_string(m.tag));
    return w.str();
}
static Case parse(const std::string &t)
{
    vp::Reader r(t);
    Case c;
    for (const auto &kv : r.ordered()) {
        if (kv.first == "prop") continue;
        std::istringstream is(kv.second);
        Cmd m;
        m.op = kv.first;
        is >> m.x >> m.y >> m.tag;
        c.cmds.push_back(m);
    }
    return c;
}

static long long offsetOf(vp::Dice &d)
{
    switch (d.weighted({3, 3, 2, 1})) {
    case 0: return d.range(0, MaxOff - 1);
    case 1: return d.range(0, 9) * Page + d.range(-3, 3);      // around page multiples
    case 2: return d.range(0, 600);                             // low offsets: dense interaction
    default: return d.pick<long long>({0, 1, Page - 1, Page, Page + 1, 2 * Page, MaxOff - 1});
    }
}
static long long lengthOf(vp::Dice &d)
{
    switch (d.weighted({4, 2, 2, 2})) {
    case 0: return d.range(1, 300);
    case 1: return d.range(Page - 3, Page + 3);
    case 2: return d.range(1, 3 * Page);
    default: return d.pick<long long>({1, 2, Page, 2 * Page, 3 * Page, Page / 2});
    }
}

static Case decode(vp::Dice &d)
{
    Case c;
    while (d.more() && c.cmds.size() < 40) {
        Cmd m;
        switch (d.weighted({6, 4, 3, 6, 3, 1})) {
        case 0: m.op = "write"; m.x = offsetOf(d); m.y = d.chance(1, 4) ? 3 * Page : lengthOf(d); break; // 3 pages: usually clipped = fills the gap
        case 1: m.op = "append"; m.y = lengthOf(d); break;
        case 2: m.op = "free"; m.x = offsetOf(d); m.y = d.range(0, 5); break; // y: 0 = as drawn, else snap to a data boundary
        case 3: m.op = "copy"; m.x = offsetOf(d); m.y = lengthOf(d); break;
        case 4: m.op = "contig"; m.x = offsetOf(d); m.y = lengthOf(d) - 1; break;
        default: m.op = "offsets"; break;
        }
        m.tag = d.range(0, 250);
        c.cmds.push_back(m);
    }
    return c;
}

enum : uint8_t { Absent = 0, Present = 1, Maybe = 2 };

static unsigned char byteFor(long long tag, int64_t off) { return static_cast<unsigned char>(tag * 131 + off * 7 + (off >> 8) * 13 + 1); }

#define NOSAN __attribute__((no_sanitize("address", "undefined")))
namespace {
/// presence map; `top` bounds the scans (nothing was ever written at or above it)
struct Model {
    std::vector<uint8_t> st, val;
    int64_t top = 0;
    Model() : st(MaxOff + 1, Absent), val(MaxOff + 1, 0) {}
    /// first offset >= from in the given state, -1 if none (Absent: everything at or above top is absent)
    NOSAN int64_t next(int64_t from, uint8_t what) const
    {
        const uint8_t *p = st.data();
        for (int64_t i = from; i < top; ++i) if (p[i] == what) return i;
        if (what == Absent && std::max(from, top) < MaxOff) return std::max(from, top);
        return -1;
    }
    /// first offset >= from NOT in the given state (MaxOff if none)
    NOSAN int64_t nextNot(int64_t from, uint8_t what) const
    {
        const uint8_t *p = st.data();
        for (int64_t i = from; i < top; ++i) if (p[i] != what) return i;
        if (what != Absent) return std::max(from, top);
        return MaxOff;
    }
    int64_t lowest(uint8_t what) const { return next(0, what); }
    NOSAN int64_t highest(uint8_t what) const
    {
        const uint8_t *p = st.data();
        for (int64_t i = top - 1; i >= 0; --i) if (p[i] == what) return i;
        return -1;
    }
};
} // namespace

/// one copy() call judged against the model; empty string = fine
static std::string judgeCopy(const mem_hdr &h, const Model &m, int64_t start, int64_t len, bool &crossedPage)
{
    std::vector<char> buf(static_cast<size_t>(len) + 8, static_cast<char>(0xA5));
    const ssize_t got = h.copy(StoreIOBuffer(static_cast<size_t>(len), start, buf.data()));
    if (got < 0 || got > len) return "copy returned " + std::to_string(got) + " for a request of " + std::to_string(len);
    const int64_t sure = std::min<int64_t>(m.nextNot(start, Present) - start, len);   // certainly present prefix
    const int64_t may = m.next(start, Absent) < 0 ? MaxOff : m.next(start, Absent);      // first certainly absent byte
    const int64_t most = std::min<int64_t>(may - start, len);
    if (got < sure) return "copy returned " + std::to_string(got) + " bytes, but " + std::to_string(sure) + " written bytes are contiguous from " + std::to_string(start);
    if (got > most) return "copy returned " + std::to_string(got) + " bytes across the missing byte at " + std::to_string(may);
    for (int64_t i = 0; i < got; ++i)
        if (static_cast<unsigned char>(buf[i]) != m.val[start + i])
            return "byte at offset " + std::to_string(start + i) + " differs from what was written";
    for (int64_t i = got; i < len + 8; ++i)
        if (static_cast<unsigned char>(buf[i]) != 0xA5) return "copy wrote beyond the bytes it reported";
    if (got > Page) crossedPage = true;
    return std::string();
}

static vp::Verdict check(const Case &c, vp::Ctx &ctx)
{
    mem_hdr h;
    Model m;
    std::set<std::string> labels;
    bool sparse = false, copied = false, crossed = false, freedSome = false;
    int step = 0;
    std::vector<int64_t> boundaries; // starts and ends of the writes so far

    auto verifyAllPresent = [&](const std::string &where) -> std::string {
        // every certainly-present run must be readable in full, byte-exact
        int64_t i = m.next(0, Present);
        while (i >= 0) {
            const int64_t e = m.nextNot(i, Present);
            bool dummy = false;
            const std::string bad = judgeCopy(h, m, i, e - i, dummy);
            if (!bad.empty()) return where + ": run [" + std::to_string(i) + "," + std::to_string(e) + "): " + bad;
            if (!h.hasContigousContentRange(Range<int64_t>(i, e))) return where + ": run [" + std::to_string(i) + "," + std::to_string(e) + ") reported as not contiguous";
            i = m.next(e, Present);
        }
        return std::string();
    };

    for (const auto &cmd : c.cmds) {
        ++step;
        const std::string where = cmd.op + " step " + std::to_string(step);
        if (cmd.op == "write" || cmd.op == "append") {
            int64_t start;
            if (cmd.op == "append") {
                const int64_t hp = std::max(m.highest(Present), m.highest(Maybe));
                start = hp + 1;
            } else {
                start = m.next(std::max<long long>(0, std::min<long long>(cmd.x, MaxOff - 1)), Absent);
            }
            if (start < 0 || start >= MaxOff) { labels.insert("write:no-room"); continue; }
            const int64_t room = m.nextNot(start, Absent) - start;
            const int64_t len = std::min<int64_t>(std::max<long long>(1, cmd.y), room);
            if (len <= 0) { labels.insert("write:no-room"); continue; }
            const bool leftNeighbour = start > 0 && m.st[start - 1] == Present;
            const bool rightNeighbour = start + len < MaxOff && m.st[start + len] == Present;
            const bool anything = m.lowest(Present) >= 0;
            std::vector<char> data(static_cast<size_t>(len));
            for (int64_t i = 0; i < len; ++i) data[i] = static_cast<char>(byteFor(cmd.tag, start + i));
            if (!h.write(StoreIOBuffer(static_cast<size_t>(len), start, data.data()))) return vp::fail("mem:write-refused", where);
            std::fill(data.begin(), data.end(), 0); // the source buffer is the caller's: it goes away
            for (int64_t i = 0; i < len; ++i) { m.st[start + i] = Present; m.val[start + i] = byteFor(cmd.tag, start + i); }
            m.top = std::max(m.top, start + len);
            boundaries.push_back(start); boundaries.push_back(start + len);
            if (leftNeighbour && rightNeighbour) { labels.insert("write:fills-gap-exactly"); sparse = true; }
            else if (leftNeighbour) labels.insert("write:appends-to-data");
            else if (rightNeighbour) { labels.insert("write:prepends-to-data"); sparse = true; }
            else if (anything) { labels.insert("write:sparse"); sparse = true; }
            else labels.insert("write:first");
            if (len > Page) labels.insert("write:multi-page");
            // read back what was just written, plus its surroundings
            bool dummy = false;
            const std::string bad = judgeCopy(h, m, start, len, dummy);
            if (!bad.empty()) return vp::fail("mem:readback-after-write-differs", where + ": " + bad);
            if (leftNeighbour || rightNeighbour) {
                int64_t s = start;
                while (s > 0 && m.st[s - 1] == Present) --s;
                const int64_t e = m.nextNot(start, Present);
                const std::string bad2 = judgeCopy(h, m, s, e - s, crossed);
                if (!bad2.empty()) return vp::fail("mem:neighbour-data-damaged-by-write", where + ": " + bad2);
            }
        } else if (cmd.op == "free") {
            int64_t x = std::max<long long>(0, cmd.x);
            if (cmd.y && !boundaries.empty()) x = boundaries[static_cast<size_t>(cmd.x) % boundaries.size()] + (cmd.y == 1 ? -1 : cmd.y == 2 ? 1 : 0);
            if (x < 0) x = 0;
            const int64_t before = h.lowestOffset();
            const int64_t ret = h.freeDataUpto(x);
            for (int64_t i = 0; i < std::min(x, MaxOff); ++i) if (m.st[i] == Present) m.st[i] = Maybe;
            if (ret != h.lowestOffset()) return vp::fail("mem:freeDataUpto-return-not-lowestOffset", where);
            if (ret != before) { freedSome = true; labels.insert("free:released-nodes"); }
            else labels.insert("free:released-nothing");
            if (m.lowest(Present) >= 0) labels.insert("free:data-remains-above");
            const std::string bad = verifyAllPresent(where);
            if (!bad.empty()) return vp::fail("mem:bytes-at-or-after-release-offset-lost", bad);
        } else if (cmd.op == "copy") {
            const int64_t from = std::max<long long>(0, std::min<long long>(cmd.x, MaxOff - 1));
            int64_t start = m.next(from, Present);
            if (start < 0) start = m.next(0, Present);
            if (start < 0) { labels.insert("copy:nothing-present"); continue; }
            const int64_t len = std::max<long long>(1, cmd.y);
            const std::string bad = judgeCopy(h, m, start, len, crossed);
            if (!bad.empty()) return vp::fail("mem:copy-differs-from-written", where + ": " + bad);
            copied = true;
            const int64_t run = m.nextNot(start, Present) - start;
            labels.insert(run < len ? "copy:stops-at-missing-byte" : "copy:full-length");
        } else if (cmd.op == "contig") {
            const int64_t a = std::max<long long>(0, std::min<long long>(cmd.x, MaxOff - 1));
            const int64_t b = std::min<int64_t>(a + std::max<long long>(0, cmd.y), MaxOff);
            bool anyAbsent = false, anyMaybe = false;
            for (int64_t i = a; i < b; ++i) { anyAbsent |= m.st[i] == Absent; anyMaybe |= m.st[i] == Maybe; }
            const bool got = h.hasContigousContentRange(Range<int64_t>(a, b));
            if (anyAbsent) { labels.insert("contig:no"); if (got) return vp::fail("mem:contiguity-claimed-over-missing-byte", where + " [" + std::to_string(a) + "," + std::to_string(b) + ")"); }
            else if (anyMaybe) { labels.insert("contig:open"); ctx.excluded("contiguity of a range with released bytes (either answer allowed)"); }
            else { labels.insert(a == b ? "contig:empty-range" : "contig:yes"); if (!got) return vp::fail("mem:contiguity-denied-for-written-range", where + " [" + std::to_string(a) + "," + std::to_string(b) + ")"); }
        } else if (cmd.op == "offsets") {
            const int64_t lo = h.lowestOffset(), hi = h.endOffset();
            const int64_t lowP = m.lowest(Present), highP = m.highest(Present);
            if (lowP < 0 && m.lowest(Maybe) < 0) {
                if (lo != 0 || hi != 0) return vp::fail("mem:offsets-of-empty-object-nonzero", where);
            } else {
                // lowest: a written byte, not above the lowest certainly-present byte
                if (lo < 0 || lo >= MaxOff || m.st[lo] == Absent || (lowP >= 0 && lo > lowP))
                    return vp::fail("mem:lowestOffset-wrong", where + " got " + std::to_string(lo) + " lowest present " + std::to_string(lowP));
                if (hi <= 0 || hi > MaxOff || m.st[hi - 1] == Absent || hi - 1 < highP)
                    return vp::fail("mem:endOffset-wrong", where + " got " + std::to_string(hi) + " highest present " + std::to_string(highP));
            }
            labels.insert("offsets");
        }
    }
    const std::string bad = verifyAllPresent("end of sequence");
    if (!bad.empty()) return vp::fail("mem:final-readback-differs", bad);
    for (const auto &l : labels) ctx.label(l);
    if (crossed) ctx.label("copy:crosses-node-boundary");
    if (sparse && freedSome) ctx.label("sparse-and-released");
    if (sparse && (copied || freedSome)) ctx.nontrivial();
    return vp::pass();
}

static void registerAll()
{
    vp::guardExit();
    vp::add<Case>("mem_hdr_model", vp::fromEntropy<Case>(decode, 1.5), check, show, parse, 1.0, vp::fuzzFromEntropy<Case>(decode));
}

VP_MAIN(registerAll)
