"""C15 Range responses contain exactly the requested bytes (206 single/multipart slices exact and covering; else 200 complete; 416 only when nothing is satisfiable)."""
import re

from hypothesis import strategies as st

from vlib.e2e import httpref
from vlib.e2e.cachekit import fetch_url, usable
from vlib.e2e.env import ProxyEnv
from vlib.e2e.origin import http_date
from vlib.e2e_runner import Result

INT64_MAX = (1 << 63) - 1
LENGTHS = [0, 1, 2, 10, 100, 4095, 4096, 4097, 8192, 8193, 12288, 16384, 16385, 32768, 40000, 65536, 65537]


@st.composite
def _scenario(draw, max_len):
    L = draw(st.one_of(st.sampled_from([l for l in LENGTHS if l <= max_len]), st.integers(0, 3000), st.integers(0, min(max_len, 70000)), st.integers(0, max_len)))
    pos = st.one_of(
        st.sampled_from([0, 1, 2, 4095, 4096, 4097, 8191, 8192, 8193, 16383, 16384]),
        st.sampled_from([max(0, L - 2), max(0, L - 1), L, L + 1, L // 2, L // 3, L + 1000]),
        st.integers(0, max(1, L + 10)),
        st.sampled_from([INT64_MAX - 1, 1 << 62, 1 << 32, (1 << 31) - 1, 1 << 31]),
    )
    small = st.one_of(st.integers(0, 5), st.integers(0, 5000), st.sampled_from([4095, 4096, 4097]))

    def spec():
        kind = draw(st.sampled_from(["fl", "fl", "fl", "open", "suffix"]))
        if kind == "fl":
            a = draw(pos)
            b = draw(st.one_of(st.just(a), small.map(lambda d: a + d), pos.filter(lambda x: x >= a), st.just(INT64_MAX - 1)))
            return ["fl", a, min(max(a, b), INT64_MAX - 1)]
        if kind == "open":
            return ["open", draw(pos)]
        return ["suffix", draw(st.one_of(small, st.sampled_from([L, L + 1, max(0, L - 1), INT64_MAX - 1])))]

    def spec_list():
        mode = draw(st.sampled_from(["free", "sorted-disjoint", "sorted-disjoint", "single", "single"]))
        if mode == "single":
            return [spec()]
        if mode == "free":
            return [spec() for _ in range(draw(st.integers(1, 6)))]
        # ascending, non-overlapping first-last specs inside the object (the shape a proxy is expected to serve as multipart)
        n = draw(st.integers(2, 5))
        cuts = sorted(set(draw(st.lists(st.one_of(st.integers(0, max(0, L - 1)), st.sampled_from([0, 4095, 4096, 4097, 8192]).map(lambda x: min(x, max(0, L - 1)))),
                                        min_size=2 * n, max_size=2 * n))))
        out = []
        for i in range(0, len(cuts) - 1, 2):
            out.append(["fl", cuts[i], cuts[i + 1] - (1 if draw(st.booleans()) and cuts[i + 1] > cuts[i] + 1 else 0)])
        if out and draw(st.booleans()):
            last = out[-1]
            if draw(st.booleans()):
                out[-1] = ["open", last[1]]
        return out or [spec()]

    nreq = draw(st.integers(1, 3))
    reqs = []
    for _ in range(nreq):
        reqs.append({
            "specs": spec_list(),
            "ws": draw(st.sampled_from(["", "", " "])),        # optional whitespace after commas
            "if_range": draw(st.sampled_from([None, None, None, "etag-match", "etag-other", "etag-weak", "date-match", "date-older"])),
            "origin": draw(st.sampled_from(["ignore", "ignore", "honour"])),   # what the stub does when the proxy forwards a Range request
        })
    return {"length": L, "precache": draw(st.sampled_from([True, True, False])), "requests": reqs,
            "etag": draw(st.booleans()), "last_modified": draw(st.booleans()), "ctype": draw(st.sampled_from(["application/octet-stream", "text/plain"]))}


def strategy(tp):
    return _scenario(int(tp.get("max_len", 300000)))


def setup(ctx):
    return ProxyEnv(ctx, cache_mem="64 MB", conf="maximum_object_size_in_memory 1 MB\n")


def teardown(env):
    env.close()


# ------------------------------------------------------------------ reference (RFC 9110 section 14)
def resolve(spec, L):
    """-> (first, last) inclusive of a satisfiable range-spec for a representation of L bytes, or None when unsatisfiable"""
    if spec[0] == "fl":
        a, b = spec[1], spec[2]
        if a >= L:
            return None
        return (a, min(b, L - 1))
    if spec[0] == "open":
        if spec[1] >= L:
            return None
        return (spec[1], L - 1)
    n = spec[1]
    if n == 0 or L == 0:
        # a suffix-range with non-zero length on an empty representation is formally satisfiable but selects no bytes
        return None
    return (max(0, L - n), L - 1)


def spec_text(spec):
    if spec[0] == "fl":
        return "%d-%d" % (spec[1], spec[2])
    if spec[0] == "open":
        return "%d-" % spec[1]
    return "-%d" % spec[1]


def union(ranges):
    out = []
    for a, b in sorted(ranges):
        if out and a <= out[-1][1] + 1:
            out[-1][1] = max(out[-1][1], b)
        else:
            out.append([a, b])
    return out


def covers(have, want):
    have = union(have)
    for a, b in union(want):
        if not any(x <= a and b <= y for x, y in have):
            return False
    return True


CR_RE = re.compile(rb"^bytes (\d+)-(\d+)/(\d+|\*)$")


def parse_multipart(body, boundary):
    """Strict reader of a multipart/byteranges body. -> (list of (first, last, total, data), error or None).
    Part data is taken by the length its Content-Range states, never by searching for the delimiter."""
    parts = []
    pos = 0
    delim = b"--" + boundary
    # optional preamble CRLF before the first delimiter
    if body.startswith(b"\r\n"):
        pos = 2
    while True:
        if not body.startswith(delim, pos):
            return parts, "delimiter expected at offset %d" % pos
        pos += len(delim)
        if body.startswith(b"--", pos):
            pos += 2
            rest = body[pos:]
            if rest not in (b"", b"\r\n"):
                return parts, "%d bytes after the closing delimiter" % len(rest)
            return parts, None
        if not body.startswith(b"\r\n", pos):
            return parts, "CRLF expected after delimiter at offset %d" % pos
        pos += 2
        end = body.find(b"\r\n\r\n", pos)
        if end < 0:
            return parts, "part header block not terminated"
        cr = None
        for line in body[pos:end].split(b"\r\n"):
            k, _, v = line.partition(b":")
            if k.strip().lower() == b"content-range":
                cr = v.strip()
        pos = end + 4
        m = CR_RE.match(cr or b"")
        if not m:
            return parts, "part without a parsable Content-Range: %r" % cr
        a, b = int(m.group(1)), int(m.group(2))
        if b < a:
            return parts, "part Content-Range with last < first: %r" % cr
        n = b - a + 1
        data = body[pos:pos + n]
        if len(data) != n:
            return parts, "part %r is cut short (%d of %d bytes)" % (cr, len(data), n)
        parts.append((a, b, m.group(3), data))
        pos += n
        if not body.startswith(b"\r\n", pos):
            return parts, "CRLF expected after the data of part %r" % cr
        pos += 2


def execute(env, sc):
    r = Result()
    path = "/" + env.ns()
    url = env.url(path)
    L = sc["length"]
    B = httpref.keyed_stream(path, L)
    lm = http_date(env.clock.now() - 86400 * 3)
    base_h = [["Cache-Control", "max-age=3600"], ["Content-Type", sc["ctype"]]]
    if sc["etag"]:
        base_h.append(["ETag", '"v1"'])
    if sc["last_modified"]:
        base_h.append(["Last-Modified", lm])
    origin_mode = {"v": "ignore"}

    def parse_range(arr):
        v = arr.msg.get("range")
        if v is None:
            return None
        mm = re.match(rb"^bytes=(.*)$", v.strip())
        if not mm:
            return "bad"
        out = []
        for s in mm.group(1).split(b","):
            s = s.strip()
            m1 = re.match(rb"^(\d+)-(\d*)$", s)
            m2 = re.match(rb"^-(\d+)$", s)
            if m1:
                out.append(["fl", int(m1.group(1)), int(m1.group(2))] if m1.group(2) else ["open", int(m1.group(1))])
            elif m2:
                out.append(["suffix", int(m2.group(1))])
            else:
                return "bad"
        return out

    def beh(arr):
        full = {"status": 200, "headers": list(base_h), "body_tag": path, "body_len": L}
        specs = parse_range(arr)
        if specs is None or specs == "bad" or origin_mode["v"] == "ignore":
            return full
        sat = [x for x in (resolve(s, L) for s in specs) if x]
        if not sat:
            return {"status": 416, "reason": "Range Not Satisfiable", "headers": [["Content-Range", "bytes */%d" % L]], "body_b64": ""}
        if len(specs) == 1:
            a, b = sat[0]
            import base64
            return {"status": 206, "reason": "Partial Content", "headers": list(base_h) + [["Content-Range", "bytes %d-%d/%d" % (a, b, L)]],
                    "body_b64": base64.b64encode(B[a:b + 1]).decode()}
        return full

    env.origin.script(path, beh)
    if sc["precache"]:
        m = fetch_url(env, url)
        if not usable(m, r):
            env.health(r)
            return r
        if m.status != 200 or not m.complete or m.body != B:
            r.inconclusive = "plain GET before the range requests did not deliver the object"
            env.health(r)
            return r
    r.sub_evaluations = 0
    for idx, rq in enumerate(sc["requests"]):
        specs = rq["specs"]
        hdrs = [("Range", "bytes=" + ("," + rq["ws"]).join(spec_text(s) for s in specs))]
        ir = rq["if_range"]
        if ir == "etag-match" and sc["etag"]:
            hdrs.append(("If-Range", '"v1"'))
        elif ir == "etag-other":
            hdrs.append(("If-Range", '"other"'))
        elif ir == "etag-weak" and sc["etag"]:
            hdrs.append(("If-Range", 'W/"v1"'))
        elif ir == "date-match" and sc["last_modified"]:
            hdrs.append(("If-Range", lm))
        elif ir == "date-older" and sc["last_modified"]:
            hdrs.append(("If-Range", http_date(env.clock.now() - 86400 * 30)))
        else:
            ir = None
        origin_mode["v"] = rq["origin"]
        before = env.origin.arrival_count(path)
        m = fetch_url(env, url, hdrs)
        if not usable(m, r):
            break
        arrived = env.origin.arrival_count(path) > before
        if m.has("x-squid-error"):
            r.label("proxy-error-page:%s" % m.status)
            continue
        if not m.complete:
            r.label("incomplete-delivery")
            # An incomplete delivery is visible to the client, but what did arrive must still be right: the head of a
            # single-part 206 states a slice inside the representation, declares that slice's length, and the bytes
            # received are a prefix of that slice.
            if m.status == 206 and not m.get("content-type", b"").lower().startswith(b"multipart/byteranges"):
                cm = CR_RE.match(m.get("content-range", b"").strip())
                if cm:
                    a, b, total = int(cm.group(1)), int(cm.group(2)), cm.group(3)
                    whereI = "request %d Range %r on a %d-byte object (incomplete delivery)" % (idx, hdrs[0][1], L)
                    if total != str(L).encode():
                        r.fail("206-single:content-range-wrong-total", "%s: Content-Range %r" % (whereI, m.get("content-range")))
                    elif b < a or b >= L:
                        r.fail("206-single:content-range-outside-representation", "%s: Content-Range %r" % (whereI, m.get("content-range")))
                    elif not B[a:b + 1].startswith(m.body):
                        r.fail("206-single:bytes-differ-from-stated-slice", "%s: Content-Range %r, %d body bytes are not a prefix of the slice" % (whereI, m.get("content-range"), len(m.body)))
                    elif m.declared_length is not None and m.declared_length != b - a + 1:
                        r.fail("206-single:content-length-differs-from-stated-slice", "%s: Content-Range %r but Content-Length %d" % (whereI, m.get("content-range"), m.declared_length))
            continue
        r.sub_evaluations += 1
        sat = [x for x in (resolve(s, L) for s in specs) if x]
        src = "miss" if arrived else "hit"
        where = "request %d (%s, origin %s) Range %r on a %d-byte object" % (idx, src, rq["origin"] if arrived else "-", hdrs[0][1], L)
        straddle = any(a // 4096 != b // 4096 for a, b in sat)
        if m.status == 200:
            r.label("%s:200%s" % (src, ":if-range-" + ir if ir else ""))
            if m.body != B:
                r.fail("200-body-is-not-the-complete-representation", "%s: 200 with %d body bytes, %s" % (where, len(m.body), "prefix ok" if B.startswith(m.body) else "content differs"))
        elif m.status == 416:
            r.label("%s:416" % src)
            if sat:
                r.fail("416-although-a-range-is-satisfiable", "%s: satisfiable %r" % (where, sat[:4]))
        elif m.status == 206:
            ctype = m.get("content-type", b"")
            if ir in ("etag-other", "etag-weak", "date-older"):
                r.label("open:206-despite-if-range-mismatch:" + ir)
            if ctype.lower().startswith(b"multipart/byteranges"):
                r.label("%s:206-multipart" % src)
                bm = re.search(rb'boundary="?([^";]+)"?', ctype)
                if not bm:
                    r.fail("multipart-without-boundary-parameter", "%s: Content-Type %r" % (where, ctype))
                    continue
                parts, err = parse_multipart(m.body, bm.group(1))
                if err:
                    r.fail("multipart-body-malformed", "%s: %s" % (where, err))
                    continue
                bad = None
                for a, b, total, data in parts:
                    if total != str(L).encode():
                        bad = ("part-content-range-wrong-total", "part %d-%d/%s" % (a, b, total.decode()))
                    elif b >= L:
                        bad = ("part-content-range-beyond-length", "part %d-%d/%s" % (a, b, total.decode()))
                    elif data != B[a:b + 1]:
                        bad = ("part-bytes-differ-from-stated-slice", "part %d-%d" % (a, b))
                    if bad:
                        break
                if bad:
                    r.fail("206-multipart:" + bad[0], "%s: %s" % (where, bad[1]))
                    continue
                if not covers([(a, b) for a, b, _, _ in parts], sat):
                    r.fail("206-multipart:parts-do-not-cover-requested-ranges", "%s: parts %r, satisfiable requested %r" % (where, [(a, b) for a, b, _, _ in parts], sat))
                    continue
                if len(parts) >= 2:
                    r.nontrivial = True
            else:
                r.label("%s:206-single" % src)
                cm = CR_RE.match(m.get("content-range", b"").strip())
                if not cm:
                    r.fail("206-without-parsable-content-range", "%s: Content-Range %r" % (where, m.get("content-range")))
                    continue
                a, b, total = int(cm.group(1)), int(cm.group(2)), cm.group(3)
                if total != str(L).encode():
                    r.fail("206-single:content-range-wrong-total", "%s: Content-Range %r" % (where, m.get("content-range")))
                elif b < a or b >= L:
                    r.fail("206-single:content-range-outside-representation", "%s: Content-Range %r" % (where, m.get("content-range")))
                elif m.body != B[a:b + 1]:
                    r.fail("206-single:bytes-differ-from-stated-slice", "%s: Content-Range %r, %d body bytes" % (where, m.get("content-range"), len(m.body)))
                elif not covers([(a, b)], sat):
                    r.fail("206-single:does-not-cover-requested-ranges", "%s: Content-Range %r, satisfiable requested %r" % (where, m.get("content-range"), sat))
                elif straddle and not arrived:
                    r.nontrivial = True
                    r.label("hit:206-single-straddling-4k")
        else:
            r.label("%s:other-status-%d" % (src, m.status))
    r.sub_evaluations = max(1, r.sub_evaluations)
    env.health(r)
    return r
