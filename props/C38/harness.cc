// C38 PROXY protocol headers are parsed faithfully and incrementally.
// Domain : v1 lines (TCP4/TCP6/UNKNOWN) and v2 headers (LOCAL/PROXY x UNSPEC/INET/INET6/UNIX x
//          UNSPEC/STREAM/DGRAM, TLVs incl. a nested SSL TLV) from a reference encoder, followed by payload
//          bytes; mutations (oversized line, bad ports, family mismatch, missing SP/CR/LF, bad nibbles,
//          declared length too short, TLV running past the header).  Every input is parsed whole and at
//          every prefix, exactly as ConnStateData::parseProxyProtocolHeader() does (inBuf grows; Parse(inBuf)).
// Oracle : an independent strict decoder written from the PROXY protocol specification classifies the
//          bytes as Accept(values) / Reject / NeedMore / Open (left open by the statement, see labels).
//          Accept => Squid returns an equal header and size == header length; Reject => Squid never
//          returns a header; any prefix returns InsufficientInput, an error, or the header (and size) that
//          the whole input gives; a prefix of an accepted input is never rejected.
#include "squid.h"
#include "base/TextException.h"
#include "ip/Address.h"
#include "ip/tools.h"
#include "parser/BinaryTokenizer.h"
#include "proxyp/Elements.h"
#include "proxyp/Header.h"
#include "proxyp/Parser.h"
#include "sbuf/SBuf.h"
#include "SquidConfig.h"

#include "verif_pbt.h"

#include <arpa/inet.h>
#include <dlfcn.h>
#include <netdb.h>

extern "C" const char *__asan_default_options() { return "quarantine_size_mb=8:thread_local_quarantine_size_kb=64:allocator_release_to_os_interval_ms=-1"; }

// ------------------------------------------------------------------ getaddrinfo interposition
// One::ExtractIp() resolves its token with a blocking getaddrinfo() without AI_NUMERICHOST, so tokens
// like "dead.beef" would go to DNS.  The harness makes every lookup numeric-only (fails fast) and counts
// the lookups that would have left the process.
static unsigned long NameLookupsAvoided = 0;

extern "C" int getaddrinfo(const char *node, const char *service, const struct addrinfo *hints, struct addrinfo **res)
{
    using Fn = int (*)(const char *, const char *, const struct addrinfo *, struct addrinfo **);
    static Fn real = reinterpret_cast<Fn>(dlsym(RTLD_NEXT, "getaddrinfo"));
    struct addrinfo h;
    memset(&h, 0, sizeof(h));
    if (hints) h = *hints;
    const bool wasNumeric = h.ai_flags & AI_NUMERICHOST;
    h.ai_flags |= AI_NUMERICHOST;
    const int rc = real(node, service, &h, res);
    if (rc != 0 && !wasNumeric) ++NameLookupsAvoided;
    return rc;
}

// ------------------------------------------------------------------ reference model

struct RefTlv { uint8_t type; std::string value; };

struct RefHeader {
    int version = 0;          // 1 or 2
    int command = 1;          // 0 LOCAL, 1 PROXY
    bool hasAddresses = false;
    int family = 0;           // 4, 6, 0 (none / unix)
    unsigned char src[16] = {}, dst[16] = {};
    unsigned srcPort = 0, dstPort = 0;
    bool compareAddresses = false; // INET/INET6 with the PROXY command
    bool compareTlvs = false;
    std::vector<RefTlv> tlvs;
    size_t size = 0;
};

enum RefKind { Accept, Reject, NeedMore, Open };
struct RefResult { RefKind kind = Reject; RefHeader h; std::string why; };

static const std::string V2Magic("\x0D\x0A\x0D\x0A\x00\x0D\x0A\x51\x55\x49\x54\x0A", 12);

static bool isV4Mapped(const unsigned char *a)
{
    static const unsigned char pfx[12] = {0, 0, 0, 0, 0, 0, 0, 0, 0, 0, 0xff, 0xff};
    return memcmp(a, pfx, 12) == 0;
}

/// strict port: 1-5 digits, no leading zero.  0 ok, 1 out of range / malformed => reject, 2 open
static int refPort(const std::string &t, unsigned &port, bool last)
{
    size_t i = 0;
    unsigned long long v = 0;
    while (i < t.size() && t[i] >= '0' && t[i] <= '9') { v = v * 10 + (t[i] - '0'); if (v > 1000000000ULL) v = 1000000000ULL; ++i; }
    if (i == 0) return 1;                      // empty or not a number
    const bool garbage = i < t.size();
    if (garbage && !last) return 1;            // "garbage after port"
    if (v > 65535) return 1;                   // out of range
    if (garbage) return 2;                     // trailing garbage after the last port: left open
    if (i > 1 && t[0] == '0') return 2;        // leading zeros: left open
    port = static_cast<unsigned>(v);
    return 0;
}

static RefResult refV1(const std::string &x)
{
    RefResult r;
    // x starts with "PROXY"
    const size_t cr = x.find('\r');
    if (cr == std::string::npos) {
        if (x.size() > 105) { r.kind = Reject; r.why = "no CR within the maximal line"; return r; }
        r.kind = NeedMore; return r;
    }
    if (cr + 2 > 107) { r.kind = Reject; r.why = "line longer than 107 bytes"; return r; }
    if (cr + 1 >= x.size()) { r.kind = NeedMore; return r; }
    if (x[cr + 1] != '\n') { r.kind = Reject; r.why = "CR not followed by LF"; return r; }
    const std::string in = x.substr(5, cr - 5);
    r.h.version = 1;
    r.h.size = cr + 2;
    if (in.empty() || in[0] != ' ') { r.kind = Reject; r.why = "no SP after PROXY"; return r; }
    if (in.compare(1, 7, "UNKNOWN") == 0) { r.kind = Accept; r.h.hasAddresses = false; return r; }
    int fam = 0;
    if (in.compare(1, 5, "TCP4 ") == 0) fam = 4;
    else if (in.compare(1, 5, "TCP6 ") == 0) fam = 6;
    else { r.kind = Reject; r.why = "bad protocol/family token"; return r; }
    // tokens separated by single SP
    std::vector<std::string> tok;
    {
        std::string cur;
        for (size_t i = 6; i < in.size(); ++i) {
            if (in[i] == ' ' && tok.size() < 3) { tok.push_back(cur); cur.clear(); }
            else cur += in[i];
        }
        tok.push_back(cur);
    }
    if (tok.size() < 4) { r.kind = Reject; r.why = "fewer than four fields"; return r; }
    bool open = false;
    int fams[2] = {0, 0};
    unsigned char *dst[2] = {r.h.src, r.h.dst};
    for (int k = 0; k < 2; ++k) {
        const std::string &t = tok[k];
        if (t.empty()) { r.kind = Reject; r.why = "empty address"; return r; }
        for (unsigned char ch : t)
            if (!(isxdigit(ch) || ch == '.' || ch == ':')) { r.kind = Reject; r.why = "bad character in address"; return r; }
        unsigned char b4[4], b6[16];
        if (inet_pton(AF_INET, t.c_str(), b4) == 1) {
            fams[k] = 4;
            memset(dst[k], 0, 16); dst[k][10] = dst[k][11] = 0xff; memcpy(dst[k] + 12, b4, 4);
        } else if (inet_pton(AF_INET6, t.c_str(), b6) == 1) {
            fams[k] = 6;
            memcpy(dst[k], b6, 16);
            if (isV4Mapped(b6)) open = true; // one in-memory representation for both: left open
        } else {
            open = true; // non-canonical numeric form or a host name made of hex letters: left open
            r.why = "lenient address form";
        }
    }
    unsigned sp = 0, dp = 0;
    const int ps = refPort(tok[2], sp, false);
    const int pd = refPort(tok[3], dp, true);
    if (ps == 1 || pd == 1) { r.kind = Reject; r.why = "bad port"; return r; }
    if (!open && (fams[0] != fam || fams[1] != fam)) { r.kind = Reject; r.why = "family mismatch"; return r; }
    if (open || ps == 2 || pd == 2) { r.kind = Open; if (r.why.empty()) r.why = "lenient port/trailing text"; return r; }
    r.kind = Accept;
    r.h.hasAddresses = true; r.h.family = fam; r.h.compareAddresses = true;
    r.h.srcPort = sp; r.h.dstPort = dp;
    return r;
}

static RefResult refV2(const std::string &x)
{
    RefResult r;
    r.h.version = 2;
    // x starts with the 12-byte signature
    if (x.size() < 13) { r.kind = NeedMore; return r; }
    const unsigned vc = static_cast<unsigned char>(x[12]);
    if ((vc >> 4) != 2) { r.kind = Reject; r.why = "version nibble"; return r; }
    if ((vc & 15) > 1) { r.kind = Reject; r.why = "command nibble"; return r; }
    if (x.size() < 14) { r.kind = NeedMore; return r; }
    const unsigned fp = static_cast<unsigned char>(x[13]);
    const unsigned fam = fp >> 4, proto = fp & 15;
    if (fam > 3) { r.kind = Reject; r.why = "family nibble"; return r; }
    if (proto > 2) { r.kind = Reject; r.why = "protocol nibble"; return r; }
    if (x.size() < 16) { r.kind = NeedMore; return r; }
    const size_t len = (static_cast<unsigned char>(x[14]) << 8) | static_cast<unsigned char>(x[15]);
    if (x.size() < 16 + len) { r.kind = NeedMore; return r; }
    r.h.command = vc & 15;
    r.h.size = 16 + len;
    const std::string block = x.substr(16, len);
    if (fam == 0 || proto == 0) { r.kind = Accept; r.h.hasAddresses = false; return r; }
    const size_t need = fam == 1 ? 12 : fam == 2 ? 36 : 216;
    if (block.size() < need) {
        // a LOCAL header "must be accepted and its address block ignored" by the specification while the
        // statement lists a too short declared length as malformed: left open for LOCAL
        r.kind = r.h.command == 0 ? Open : Reject;
        r.why = "declared length shorter than the address block";
        return r;
    }
    r.h.hasAddresses = true;
    if (fam == 1) {
        r.h.family = 4;
        memset(r.h.src, 0, 16); r.h.src[10] = r.h.src[11] = 0xff; memcpy(r.h.src + 12, block.data(), 4);
        memset(r.h.dst, 0, 16); r.h.dst[10] = r.h.dst[11] = 0xff; memcpy(r.h.dst + 12, block.data() + 4, 4);
        r.h.srcPort = (static_cast<unsigned char>(block[8]) << 8) | static_cast<unsigned char>(block[9]);
        r.h.dstPort = (static_cast<unsigned char>(block[10]) << 8) | static_cast<unsigned char>(block[11]);
    } else if (fam == 2) {
        r.h.family = 6;
        memcpy(r.h.src, block.data(), 16);
        memcpy(r.h.dst, block.data() + 16, 16);
        r.h.srcPort = (static_cast<unsigned char>(block[32]) << 8) | static_cast<unsigned char>(block[33]);
        r.h.dstPort = (static_cast<unsigned char>(block[34]) << 8) | static_cast<unsigned char>(block[35]);
    }
    r.h.compareAddresses = r.h.command == 1 && (fam == 1 || fam == 2);
    if (r.h.command == 1) {
        // TLVs
        size_t p = need;
        while (p < block.size()) {
            if (p + 3 > block.size()) { r.kind = Reject; r.why = "TLV header runs past the declared length"; return r; }
            const size_t l = (static_cast<unsigned char>(block[p + 1]) << 8) | static_cast<unsigned char>(block[p + 2]);
            if (p + 3 + l > block.size()) { r.kind = Reject; r.why = "TLV value runs past the declared length"; return r; }
            r.h.tlvs.push_back(RefTlv{static_cast<uint8_t>(block[p]), block.substr(p + 3, l)});
            p += 3 + l;
        }
        r.h.compareTlvs = true;
    }
    r.kind = Accept;
    return r;
}

static RefResult reference(const std::string &x)
{
    RefResult r;
    if (x.compare(0, 12, V2Magic) == 0 && x.size() >= 12) return refV2(x);
    if (x.compare(0, 5, "PROXY") == 0 && x.size() >= 5) return refV1(x);
    // neither signature
    const size_t n = x.size();
    if ((n < 12 && V2Magic.compare(0, n, x) == 0) || (n < 5 && std::string("PROXY").compare(0, n, x) == 0)) { r.kind = NeedMore; return r; }
    if (n < 12) { r.kind = Open; r.why = "short input that cannot become a signature"; return r; } // may be rejected now or at 12 bytes
    r.kind = Reject; r.why = "no PROXY signature";
    return r;
}

// ------------------------------------------------------------------ what Squid returned

struct Got {
    enum Kind { Header, More, Error } kind = Error;
    std::string version, command;
    bool hasAddresses = false, forwarded = false;
    bool srcV4 = false, dstV4 = false;
    unsigned char src[16] = {}, dst[16] = {};
    unsigned srcPort = 0, dstPort = 0;
    std::vector<RefTlv> tlvs;
    size_t size = 0;
    std::string error;
};

/// signatures are single tokens (they key known_findings.json and are parsed from REPLAY lines)
static std::string token(std::string s) { for (auto &ch : s) if (ch == ' ' || ch == '/' || ch == '(' || ch == ')') ch = '-'; return s; }

static std::string toStd(const SBuf &s) { return std::string(s.rawContent(), s.length()); }

static Got squidParse(const std::string &bytes)
{
    Got g;
    try {
        const SBuf in(bytes.data(), bytes.size());
        const auto parsed = ProxyProtocol::Parse(in);
        g.kind = Got::Header;
        g.size = parsed.size;
        const auto &h = *parsed.header;
        g.version = toStd(h.version());
        g.command = toStd(h.getValues(ProxyProtocol::Two::htPseudoCommand));
        g.hasAddresses = h.hasAddresses();
        g.forwarded = h.hasForwardedAddresses();
        struct in6_addr a;
        h.sourceAddress.getInAddr(a); memcpy(g.src, &a, 16);
        h.destinationAddress.getInAddr(a); memcpy(g.dst, &a, 16);
        g.srcV4 = h.sourceAddress.isIPv4(); g.dstV4 = h.destinationAddress.isIPv4();
        g.srcPort = h.sourceAddress.port(); g.dstPort = h.destinationAddress.port();
        for (const auto &t : h.tlvs) g.tlvs.push_back(RefTlv{t.type, toStd(t.value)});
    } catch (const Parser::BinaryTokenizer::InsufficientInput &) {
        g.kind = Got::More;
    } catch (const std::exception &e) {
        g.kind = Got::Error;
        g.error = e.what();
    }
    return g;
}

static bool sameTlvs(const std::vector<RefTlv> &a, const std::vector<RefTlv> &b)
{
    if (a.size() != b.size()) return false;
    for (size_t i = 0; i < a.size(); ++i) if (a[i].type != b[i].type || a[i].value != b[i].value) return false;
    return true;
}

static bool sameGot(const Got &a, const Got &b)
{
    return a.version == b.version && a.command == b.command && a.hasAddresses == b.hasAddresses && a.forwarded == b.forwarded &&
           memcmp(a.src, b.src, 16) == 0 && memcmp(a.dst, b.dst, 16) == 0 && a.srcPort == b.srcPort && a.dstPort == b.dstPort &&
           sameTlvs(a.tlvs, b.tlvs) && a.size == b.size;
}

// ------------------------------------------------------------------ case

struct Case {
    std::string bytes;   // header (possibly mutated) + payload
    std::string note;    // how it was built (informational)
};

static std::string show(const Case &c) { return vp::Writer().s("bytes", c.bytes).s("note", c.note).str(); }
static Case parse(const std::string &t) { vp::Reader r(t); Case c; c.bytes = r.s("bytes"); c.note = r.s("note"); return c; }

// ---- reference encoder

static rc::Gen<std::string> rawBytes(size_t n)
{
    return rc::gen::container<std::string>(n, rc::gen::map(rc::gen::resize(100, rc::gen::inRange<int>(0, 256)), [](int v) { return static_cast<char>(v); }));
}

static std::string v4Text(const std::string &b) { char buf[64]; inet_ntop(AF_INET, b.data(), buf, sizeof(buf)); return buf; }

static std::string v6Text(const std::string &b, int style)
{
    char buf[80];
    if (style == 1) { // fully expanded groups
        std::string s;
        for (int i = 0; i < 8; ++i) { snprintf(buf, sizeof(buf), "%s%x", i ? ":" : "", (static_cast<unsigned char>(b[2 * i]) << 8) | static_cast<unsigned char>(b[2 * i + 1])); s += buf; }
        return s;
    }
    inet_ntop(AF_INET6, b.data(), buf, sizeof(buf));
    std::string s = buf;
    if (style == 2) for (auto &ch : s) ch = static_cast<char>(toupper(static_cast<unsigned char>(ch)));
    return s;
}

static rc::Gen<std::string> addr4()
{
    using namespace rc;
    return gen::oneOf(rawBytes(4), gen::element(std::string("\0\0\0\0", 4), std::string("\xff\xff\xff\xff", 4), std::string("\x7f\0\0\1", 4), std::string("\x0a\0\0\1", 4), std::string("\xc0\xa8\1\xfe", 4)));
}

static rc::Gen<std::string> addr6()
{
    using namespace rc;
    return gen::exec([]() {
        std::string b = *rawBytes(16);
        const int k = *vp::range<int>(0, 7);
        if (k == 0) b.assign(16, '\0');                       // ::
        else if (k == 1) { b.assign(16, '\0'); b[15] = 1; }   // ::1
        else if (k == 2) b.assign(16, '\xff');
        else if (k == 3) for (int i = 2; i < 12; ++i) b[i] = 0; // long zero run
        else if (k == 4) { b[4] = b[5] = 0; b[10] = b[11] = 0; }
        // never v4-mapped / v4-compatible prefixes here (those are generated as a labelled open class)
        if (memcmp(b.data(), std::string(10, '\0').data(), 10) == 0 && k > 1 && (b[10] || b[11] || b[12] || b[13])) b[0] = 0x20;
        return b;
    });
}

static rc::Gen<unsigned> portGen()
{
    using namespace rc;
    return gen::oneOf(gen::element<unsigned>(0, 1, 80, 443, 1023, 1024, 9999, 10000, 32768, 65534, 65535), vp::range<unsigned>(0, 65535));
}

static void put16(std::string &s, unsigned v) { s += static_cast<char>(v >> 8); s += static_cast<char>(v & 255); }

static rc::Gen<std::string> tlvsGen()
{
    using namespace rc;
    return gen::exec([]() {
        std::string out;
        const int n = *gen::weightedElement<int>({{3, 0}, {3, 1}, {2, 2}, {1, 3}, {1, 5}});
        for (int i = 0; i < n; ++i) {
            const int k = *vp::range<int>(0, 6);
            unsigned type = *gen::element<unsigned>(1, 2, 3, 4, 0x30, 0xE0, 0xEE, 0, 0xff);
            std::string value;
            if (k == 0) { // nested SSL TLV
                type = 0x20;
                value += static_cast<char>(*vp::range<int>(0, 7));
                value += *rawBytes(4);
                const int subs = *vp::range<int>(0, 3);
                for (int j = 0; j < subs; ++j) {
                    const std::string sv = *vp::bytes(12, "TLSv1.23ECDHAabc-_");
                    value += static_cast<char>(*gen::element<int>(0x21, 0x22, 0x23, 0x24, 0x25));
                    put16(value, sv.size());
                    value += sv;
                }
            } else if (k == 1) { type = 4; value.assign(*vp::range<size_t>(0, 40), '\0'); } // NOOP padding
            else if (k == 2) { type = 2; value = *vp::bytes(30, "abcdefghijklmnopqrstuvwxyz.-0123456789"); } // authority
            else if (k == 3) value.clear();
            else value = *vp::bytes(*gen::element<size_t>(1, 4, 16, 64, 300));
            out += static_cast<char>(type);
            put16(out, value.size());
            out += value;
        }
        return out;
    });
}

struct Built { std::string header; std::string note; };

static rc::Gen<Built> v1Gen()
{
    using namespace rc;
    return gen::exec([]() {
        Built b;
        const int kind = *gen::weightedElement<int>({{4, 4}, {5, 6}, {2, 0}});
        std::string line = "PROXY ";
        std::string f[4]; // src dst sport dport
        if (kind == 0) {
            line += "UNKNOWN";
            if (*vp::range<int>(0, 1)) line += *vp::bytes(40, " 0123456789abcdef:.TCPxyz");
            for (auto &ch : line) if (ch == '\r') ch = ' ';
            if (line.size() > 105) line.resize(105);
            b.note = "v1 UNKNOWN";
            b.header = line + "\r\n";
        } else {
            const int style = *vp::range<int>(0, 2);
            if (kind == 4) { f[0] = v4Text(*addr4()); f[1] = v4Text(*addr4()); }
            else { f[0] = v6Text(*addr6(), style); f[1] = v6Text(*addr6(), *vp::range<int>(0, 2)); }
            f[2] = std::to_string(*portGen());
            f[3] = std::to_string(*portGen());
            std::string famTok = kind == 4 ? "TCP4" : "TCP6";
            b.note = kind == 4 ? "v1 TCP4" : "v1 TCP6";
            std::string sp[5] = {" ", " ", " ", " ", ""};
            std::string eol = "\r\n";
            // ---- mutations
            const int mut = *gen::weightedElement<int>({{10, 0}, {2, 1}, {2, 2}, {2, 3}, {1, 4}, {1, 5}, {1, 6}, {1, 7}, {1, 8}, {1, 9}, {1, 10}, {1, 11}, {1, 12}});
            const int which = *vp::range<int>(2, 3);
            switch (mut) {
            case 0: break;
            case 1: f[which] = *gen::element(std::string("65536"), std::string("65537"), std::string("70000"), std::string("99999"), std::string("100000"), std::string("4294967296"), std::string("4294967376"), std::string("18446744073709551616"), std::string("9223372036854775808"), std::string("99999999999999999999999")); b.note += " port-out-of-range"; break;
            case 2: f[which] = *gen::element(std::string(""), std::string("-1"), std::string("+80"), std::string("x"), std::string("8o"), std::string("0x50"), std::string(" 80"), std::string("80 ")); b.note += " port-non-numeric"; break;
            case 3: { // family mismatch
                const int m = *vp::range<int>(0, 2);
                if (kind == 4) { if (m != 1) f[0] = v6Text(*addr6(), 0); if (m != 0) f[1] = v6Text(*addr6(), 0); }
                else { if (m != 1) f[0] = v4Text(*addr4()); if (m != 0) f[1] = v4Text(*addr4()); }
                b.note += " family-mismatch"; break;
            }
            case 4: sp[*vp::range<int>(0, 3)] = *gen::element(std::string(""), std::string("  "), std::string("\t")); b.note += " separator"; break;
            case 5: eol = *gen::element(std::string("\n"), std::string("\r"), std::string("\r\r\n"), std::string("\n\r"), std::string("")); b.note += " eol"; break;
            case 6: famTok = *gen::element(std::string("TCP"), std::string("TCP5"), std::string("TCP44"), std::string("tcp4"), std::string("UDP4"), std::string("TCP6x"), std::string("TCP46")); b.note += " family-token"; break;
            case 7: f[3] += *gen::element(std::string(" "), std::string(" x"), std::string("x"), std::string(" 1 2 3"), std::string("\t"), std::string(" \x01")); b.note += " trailing-text"; break;
            case 8: f[which] = std::string(*vp::range<size_t>(1, 4), '0') + f[which]; b.note += " leading-zeros"; break;
            case 9: { // oversize: pad the line beyond 107 bytes in a field or after it
                const size_t pad = *vp::range<size_t>(1, 90);
                const int where = *vp::range<int>(0, 2);
                if (where == 0) f[3] += " " + std::string(pad, 'x');
                else if (where == 1) f[3] = std::string(pad, '0') + f[3];
                else f[0] = (kind == 4 ? std::string(pad, '0') : std::string(pad, '0')) + f[0];
                b.note += " padded"; break;
            }
            case 10: f[*vp::range<int>(0, 1)] = *gen::element(std::string("1.2.3"), std::string("1"), std::string("1.2.3.4.5"), std::string("256.1.1.1"), std::string("1.2.3.04"), std::string("dead.beef"), std::string("abc"), std::string("cafe.babe.ee"), std::string("::ffff:1.2.3.4"), std::string("::1.2.3.4"), std::string("1::2::3"), std::string(":"), std::string("12345::1"), std::string("g::1"), std::string("fe80::1%1"), std::string("1.2.3.4:80"), std::string("")); b.note += " odd-address"; break;
            case 11: line = *gen::element(std::string("PROXY"), std::string("PROXY\t"), std::string("PROXZ "), std::string("proxy "), std::string("PROXY  ")); b.note += " magic"; break;
            default: f[*vp::range<int>(0, 1)] = kind == 4 ? "::ffff:" + v4Text(*addr4()) : "::ffff:" + v4Text(*addr4()); b.note += " v4-mapped"; break;
            }
            line += famTok + sp[0] + f[0] + sp[1] + f[1] + sp[2] + f[2] + sp[3] + f[3];
            b.header = line + eol;
        }
        return b;
    });
}

static rc::Gen<Built> v2Gen()
{
    using namespace rc;
    return gen::exec([]() {
        Built b;
        unsigned ver = 2, cmd = *gen::weightedElement<unsigned>({{5, 1}, {2, 0}});
        unsigned fam = *gen::weightedElement<unsigned>({{4, 1}, {4, 2}, {1, 3}, {1, 0}});
        unsigned proto = *gen::weightedElement<unsigned>({{5, 1}, {2, 2}, {1, 0}});
        std::string block;
        if (fam == 1) { block += *addr4(); block += *addr4(); put16(block, *portGen()); put16(block, *portGen()); }
        else if (fam == 2) { block += *addr6(); block += *addr6(); put16(block, *portGen()); put16(block, *portGen()); }
        else if (fam == 3) { std::string p1 = *vp::bytes(30, "/abcdefghijklmnop.sock"), p2 = *vp::bytes(30, "/var/run/x.sock"); p1.resize(108, '\0'); p2.resize(108, '\0'); block += p1 + p2; }
        else if (*vp::range<int>(0, 1)) block += *vp::bytes(40);
        const size_t addrLen = block.size();
        block += *tlvsGen();
        size_t declared = block.size();
        b.note = "v2 cmd=" + std::to_string(cmd) + " fam=" + std::to_string(fam) + " proto=" + std::to_string(proto) + (block.size() > addrLen ? " tlvs" : "");
        const int mut = *gen::weightedElement<int>({{12, 0}, {1, 1}, {1, 2}, {1, 3}, {1, 4}, {2, 5}, {2, 6}, {1, 7}, {1, 8}});
        std::string magic = V2Magic;
        switch (mut) {
        case 0: break;
        case 1: ver = *gen::element<unsigned>(0, 1, 3, 15); b.note += " bad-version"; break;
        case 2: cmd = *gen::element<unsigned>(2, 3, 15); b.note += " bad-command"; break;
        case 3: fam = *gen::element<unsigned>(4, 5, 15); b.note += " bad-family"; break;
        case 4: proto = *gen::element<unsigned>(3, 4, 15); b.note += " bad-proto"; break;
        case 5: // declared length shorter than the address block (the rest becomes payload)
            if (addrLen) declared = *vp::range<size_t>(0, addrLen - 1);
            b.note += " short-declared-length"; break;
        case 6: { // a TLV whose length runs past the header
            const std::string v = *vp::bytes(10);
            block += static_cast<char>(*gen::element<int>(1, 4, 0x20));
            put16(block, v.size() + *vp::range<unsigned>(1, 300));
            block += v;
            declared = block.size();
            if (*vp::range<int>(0, 2) == 0) { block.resize(block.size() - v.size() - *vp::range<int>(1, 2)); declared = block.size(); } // truncated TLV header
            b.note += " tlv-overrun"; break;
        }
        case 7: declared = block.size() + *vp::range<size_t>(1, 40); b.note += " long-declared-length"; break; // swallows payload as TLV bytes
        default: magic[*vp::range<size_t>(0, 11)] ^= static_cast<char>(1 << *vp::range<int>(0, 7)); b.note += " bad-magic"; break;
        }
        std::string h = magic;
        h += static_cast<char>((ver << 4) | cmd);
        h += static_cast<char>((fam << 4) | proto);
        put16(h, declared);
        h += block;
        b.header = h;
        return b;
    });
}

static rc::Gen<Case> gen()
{
    using namespace rc;
    return gen::exec([]() {
        Case c;
        const Built b = *vp::range<int>(0, 1) ? *v1Gen() : *v2Gen();
        c.note = b.note;
        c.bytes = b.header;
        // what follows the header on the connection
        const int pk = *vp::range<int>(0, 4);
        if (pk == 0) c.bytes += "GET / HTTP/1.1\r\n";
        else if (pk == 1) c.bytes += *vp::bytes(12);
        else if (pk == 2) c.bytes += *gen::element(std::string("\r\n"), std::string("\n"), std::string("\r"), std::string("PROXY "), std::string(" "));
        // byte-level damage, rarely
        if (*vp::range<int>(0, 15) == 0 && !c.bytes.empty()) {
            const size_t at = *vp::range<size_t>(0, c.bytes.size() - 1);
            const int how = *vp::range<int>(0, 2);
            if (how == 0) c.bytes[at] = static_cast<char>(*vp::range<int>(0, 255));
            else if (how == 1) c.bytes.erase(at, 1);
            else c.bytes.insert(at, 1, static_cast<char>(*vp::range<int>(0, 255)));
            c.note += " byte-damage";
        }
        return c;
    });
}

// ------------------------------------------------------------------ oracle

static std::string hex16(const unsigned char *p)
{
    char buf[40]; std::string s;
    for (int i = 0; i < 16; ++i) { snprintf(buf, sizeof(buf), "%02x", p[i]); s += buf; }
    return s;
}

static vp::Verdict check(const Case &c, vp::Ctx &ctx)
{
    Ip::EnableIpv6 = IPV6_SPECIAL_V4MAPPING;
    Config.Addrs.client_netmask.setNoAddr();
    const unsigned long lookupsBefore = NameLookupsAvoided;

    const std::string &x = c.bytes;
    if (x.size() > 1200) { ctx.excluded("input longer than the harness bound"); return vp::pass(); }
    const RefResult ref = reference(x);
    const Got full = squidParse(x);

    const bool v1 = x.compare(0, 5, "PROXY") == 0, v2 = x.compare(0, 12, V2Magic) == 0;
    const std::string fam = v1 ? "v1" : v2 ? "v2" : "nomagic";
    static const char *kindName[] = {"accept", "reject", "needmore", "open"};
    ctx.label(fam + ":ref-" + kindName[ref.kind]);
    if (ref.kind == Open) ctx.excluded("left open by the statement: " + ref.why);
    if (ref.kind == Reject) ctx.label("reject:" + ref.why);

    // ---- whole input vs the reference
    if (ref.kind == Accept) {
        if (full.kind != Got::Header)
            return vp::fail(fam + ":well-formed-header-not-accepted", (full.kind == Got::More ? "asked for more; " : "error: " + full.error + "; ") + c.note);
        const RefHeader &h = ref.h;
        if (full.size != h.size)
            return vp::fail(fam + ":consumed-length-differs", "got " + std::to_string(full.size) + " want " + std::to_string(h.size));
        if (full.version != (h.version == 1 ? "1.0" : "2.0")) return vp::fail(fam + ":version-differs", full.version);
        if (full.command != std::to_string(h.command)) return vp::fail(fam + ":command-differs", full.command);
        if (full.hasAddresses != h.hasAddresses) return vp::fail(fam + ":address-presence-differs");
        if (full.forwarded != (h.hasAddresses && h.command == 1)) return vp::fail(fam + ":forwarded-flag-differs");
        if (h.compareAddresses) {
            if (memcmp(full.src, h.src, 16) != 0) return vp::fail(fam + ":source-address-differs", hex16(full.src) + " want " + hex16(h.src));
            if (memcmp(full.dst, h.dst, 16) != 0) return vp::fail(fam + ":destination-address-differs", hex16(full.dst) + " want " + hex16(h.dst));
            if (full.srcPort != h.srcPort) return vp::fail(fam + ":source-port-differs", std::to_string(full.srcPort) + " want " + std::to_string(h.srcPort));
            if (full.dstPort != h.dstPort) return vp::fail(fam + ":destination-port-differs", std::to_string(full.dstPort) + " want " + std::to_string(h.dstPort));
            if (full.srcV4 != (h.family == 4) || full.dstV4 != (h.family == 4)) return vp::fail(fam + ":address-family-differs");
        } else if (h.hasAddresses) {
            ctx.label(h.family ? "addresses-of-LOCAL-header-not-compared" : "unix-addresses-not-compared");
        }
        if (h.compareTlvs) {
            if (!sameTlvs(full.tlvs, h.tlvs)) return vp::fail(fam + ":tlvs-differ", std::to_string(full.tlvs.size()) + " vs " + std::to_string(h.tlvs.size()));
            if (!h.tlvs.empty()) ctx.label("v2:tlvs-compared");
        } else if (v1 && !full.tlvs.empty()) {
            return vp::fail("v1:tlvs-invented");
        }
    } else if (ref.kind == Reject) {
        if (full.kind == Got::Header) return vp::fail(fam + ":malformed-header-accepted:" + token(ref.why), c.note);
        if (full.kind == Got::More) return vp::fail(fam + ":malformed-header-waits-for-more:" + token(ref.why), c.note);
    } else if (ref.kind == NeedMore) {
        if (full.kind == Got::Header) return vp::fail(fam + ":header-from-incomplete-input", c.note);
    }

    // ---- every prefix
    size_t firstHeaderAt = std::string::npos;
    unsigned inside = 0;
    for (size_t k = 0; k < x.size(); ++k) {
        const Got p = squidParse(x.substr(0, k));
        if (p.kind == Got::Header) {
            if (full.kind != Got::Header)
                return vp::fail("prefix:header-from-prefix-but-not-from-whole-input", "prefix length " + std::to_string(k));
            if (!sameGot(p, full))
                return vp::fail("prefix:header-differs-from-whole-input", "prefix length " + std::to_string(k) + " size " + std::to_string(p.size) + " vs " + std::to_string(full.size));
            if (p.size > k) return vp::fail("prefix:consumed-more-than-given");
            if (firstHeaderAt == std::string::npos) firstHeaderAt = k;
        } else if (p.kind == Got::Error) {
            if (full.kind == Got::Header)
                return vp::fail("prefix:prefix-of-accepted-input-rejected", "prefix length " + std::to_string(k) + ": " + p.error);
        } else {
            if (firstHeaderAt != std::string::npos)
                return vp::fail("prefix:more-wanted-after-a-shorter-prefix-gave-a-header");
            if (k > 16) ++inside;
        }
    }
    if (full.kind == Got::Header) {
        if (firstHeaderAt == std::string::npos && full.size < x.size()) return vp::fail("prefix:header-only-from-whole-input-although-shorter");
        if (firstHeaderAt != std::string::npos && firstHeaderAt != full.size) return vp::fail("prefix:first-accepting-prefix-is-not-the-header-length", std::to_string(firstHeaderAt) + " vs " + std::to_string(full.size));
    }

    if (NameLookupsAvoided != lookupsBefore) ctx.label("v1:name-lookup-avoided");
    if (full.kind == Got::Header) ctx.label(fam + ":squid-accepts"); else ctx.label(full.kind == Got::More ? "squid-wants-more" : "squid-rejects");
    if (inside) ctx.label("prefix-ends-inside-address-block");
    const bool v1tcp6 = v1 && x.compare(0, 10, "PROXY TCP6") == 0 && full.kind == Got::Header;
    const bool v2tlv = v2 && full.kind == Got::Header && !full.tlvs.empty();
    if (v1tcp6) ctx.label("v1:tcp6-accepted");
    if (v2tlv || v1tcp6 || (ref.kind == Reject && x.size() > 16)) ctx.nontrivial();
    return vp::pass();
}

#ifdef VP_FUZZ
static Case fuzzCase(FuzzedDataProvider &fdp)
{
    Case c;
    const int k = fdp.ConsumeIntegralInRange<int>(0, 3);
    if (k == 0) c.bytes = V2Magic;
    else if (k == 1) c.bytes = "PROXY ";
    else if (k == 2) c.bytes = "PROXY TCP" + std::string(1, fdp.ConsumeBool() ? '4' : '6') + " ";
    c.bytes += fdp.ConsumeRemainingBytesAsString();
    if (c.bytes.size() > 600) c.bytes.resize(600);
    c.note = "fuzz";
    return c;
}
#else
static std::function<Case(FuzzedDataProvider &)> fuzzCase = nullptr;
#endif

static void registerAll()
{
    vp::add<Case>("parse_all_prefixes", gen(), check, show, parse, 1.0, fuzzCase);
}

VP_MAIN(registerAll)
