"""C62 Header size limits are enforced before forwarding."""
import base64

from hypothesis import strategies as st

from vlib.e2e import client
from vlib.e2e.env import ProxyEnv, fetch, usable
from vlib.e2e_runner import Result

LIMITS = [(1024, 1024), (4096, 2048), (65536, 65536), (2048, 8192)]   # (request_header_max_size, reply_header_max_size) per worker


def strategy(tp):
    delta = st.one_of(st.integers(-64, 64), st.integers(-8, 8), st.sampled_from([-600, -200, 200, 1000, 5000, 70000]))
    return st.fixed_dictionaries({
        "side": st.sampled_from(["request", "request", "response"]),
        "delta": delta,
        "growth": st.sampled_from(["uri", "one-field", "many-fields", "field-name", "method-line-only", "obs-fold-ws", "ws-prefix-line",
                                   "obs-fold-ws", "one-field", "ws-prefix-line"]),
        "wsbyte": st.sampled_from([" ", "\t", " \t"]),
        "segments": st.lists(st.one_of(st.integers(1, 50), st.integers(100, 3000)), min_size=0, max_size=6),
        "pauses": st.lists(st.sampled_from([0, 1, 5]), min_size=0, max_size=6),
        "version": st.sampled_from(["HTTP/1.1", "HTTP/1.1", "HTTP/1.0"]),
        "body": st.booleans(),
    })


def setup(ctx):
    rq, rp = LIMITS[ctx.worker % len(LIMITS)]
    env = ProxyEnv(ctx, conf="request_header_max_size %d bytes\nreply_header_max_size %d bytes\n" % (rq, rp), cache_mem="0 MB")
    env.req_limit, env.rep_limit = rq, rp
    return env


def teardown(env):
    env.close()


def _pad_fields(n):
    """n bytes of field lines 'X-Pn: aaaa\\r\\n' (n >= 9)"""
    out = []
    i = 0
    while n > 0:
        name = "X-P%d" % i
        fixed = len(name) + 4   # ': ' + CRLF
        if n < fixed + 1 + 9:   # last line takes the rest
            val = n - fixed
            if val < 0:
                # cannot fit another line: extend the previous value
                out[-1] = out[-1][:-2] + "a" * n + "\r\n"
                break
            out.append("%s: %s\r\n" % (name, "a" * val))
            break
        val = min(60, n - fixed - 9)
        out.append("%s: %s\r\n" % (name, "a" * val))
        n -= fixed + val
        i += 1
    return "".join(out)


def build_request(env, path, total, sc):
    hostport = "127.0.0.1:%d" % env.origin.port
    method = "POST" if sc["body"] else "GET"
    tail = "Host: %s\r\nConnection: close\r\n" % hostport
    if sc["body"]:
        tail += "Content-Length: 3\r\n"
    def line(extra_q=""):
        return "%s http://%s%s%s %s\r\n" % (method, hostport, path, extra_q, sc["version"])
    g = sc["growth"]
    base = line() + tail + "\r\n"
    need = total - len(base)
    if need < 12:
        return None
    if g in ("uri", "method-line-only"):
        q = "?q=" + "a" * (need - 3)
        head = line(q) + tail + "\r\n"
    elif g == "one-field":
        head = line() + tail + "X-Pad: " + "a" * (need - 9) + "\r\n\r\n"
    elif g == "field-name":
        head = line() + tail + "X-" + "n" * (need - 7) + ": v\r\n\r\n"
    elif g == "obs-fold-ws":
        # the excess is whitespace of an obs-fold continuation, which the parser collapses to one SP before field parsing:
        # the limit is on the bytes received (squid.conf: "maximum size for HTTP headers in a request"), not on what is left after clean-up
        ws = (sc.get("wsbyte", " ") * need)[:need - 13]
        head = line() + tail + "X-Pad: a\r\n" + ws + "b\r\n\r\n"
    elif g == "ws-prefix-line":
        # a whitespace-preceded line between the request line and the first field (dropped by the tolerant parser)
        ws = (sc.get("wsbyte", " ") * need)[:1]
        head = line() + ws + "x" * (need - 3) + "\r\n" + tail + "\r\n"
    else:
        head = line() + tail + _pad_fields(need) + "\r\n"
    if len(head) != total:
        return None
    return head.encode()


def execute(env, sc):
    r = Result()
    path = "/" + env.ns()
    if sc["side"] == "request":
        limit = env.req_limit
        total = limit + sc["delta"]
        env.origin.script(path, {"status": 200, "headers": [["Cache-Control", "no-store"]], "body_b64": ""})
        head = build_request(env, path, total, sc)
        if head is None:
            r.inconclusive = "cannot build a head of that exact size"
            return r
        c = client.Conn(env.port, timeout=15)
        try:
            c.send(head + (b"abc" if sc["body"] else b""), sc["segments"], sc["pauses"])
            m = c.read_response(b"POST" if sc["body"] else b"GET", timeout=15)
        finally:
            c.close()
        arrived = env.origin.arrival_count(path) > 0 or any(path.encode() in (a.msg.target or b"") for a in env.origin.all_arrivals()[-3:])
        d = sc["delta"]
        r.label("req-delta-" + ("over" if d > 0 else ("under16" if d < -16 else "band")))
        if abs(d) <= 64:
            r.nontrivial = True
        if d > 0:
            if arrived:
                r.fail("oversized-request-forwarded", "head %d bytes > limit %d (growth %s) reached the origin" % (total, limit, sc["growth"]))
            elif getattr(m, "timed_out", False):
                r.inconclusive = "no answer to an oversized request before the deadline"
            elif m.status is None:
                r.label("oversized-request-connection-closed-without-response")
            elif m.status not in (414, 431):
                r.fail("oversized-request-status-not-414-or-431", "status %s for head %d > limit %d (growth %s, segments %s)" % (m.status, total, limit, sc["growth"], sc["segments"]))
        elif d < -16:
            r.label("under-limit-forwarded" if arrived else "under-limit-refused")
    else:
        limit = env.rep_limit
        total = limit + sc["delta"]
        base = "HTTP/1.1 200 OK\r\nContent-Length: 0\r\nCache-Control: no-store\r\nConnection: close\r\n"
        need = total - len(base) - 2
        if need < 12:
            r.inconclusive = "cannot build a head of that exact size"
            return r
        canary = "Z" * 8
        if sc["growth"] in ("many-fields",):
            pad = _pad_fields(need - (len("X-Canary: ") + len(canary) + 2))
            head = base + "X-Canary: " + canary + "\r\n" + pad + "\r\n"
        else:
            head = base + "X-Canary: " + canary + "a" * (need - len("X-Canary: ") - len(canary) - 2) + "\r\n\r\n"
        if len(head) != total:
            r.inconclusive = "cannot build a head of that exact size"
            return r
        env.origin.script(path, {"raw_head_b64": base64.b64encode(head.encode()).decode(), "framing": "none", "close": True,
                                 "segments": sc["segments"], "pause_ms": sc["pauses"]})
        m = fetch(env, path, timeout=15)
        if not usable(m, r):
            env.health(r)
            return r
        d = sc["delta"]
        relayed = m.has("x-canary")
        r.label("rep-delta-" + ("over" if d > 0 else ("under16" if d < -16 else "band")))
        if abs(d) <= 64:
            r.nontrivial = True
        if d > 0 and relayed:
            r.fail("oversized-reply-head-relayed", "origin head %d bytes > limit %d relayed with status %s" % (total, limit, m.status))
        elif d < -16:
            r.label("under-limit-relayed" if relayed else "under-limit-not-relayed")
    env.health(r)
    return r
