// C35 HTTP date formatting and parsing round-trip (src/time/rfc1123.cc).
// Domain : times 1970-01-01 .. 9999-12-31 dense around day/month/year/leap boundaries and 2^31;
//          every day of 1970-9999 at a generated second, enumerated by index; date strings in the
//          three HTTP forms rendered by a reference formatter and then mutated (case, spaces, 2-/4-digit
//          years, day 29-31, missing/other zone, truncation, digits).
// Oracle : proleptic-Gregorian day arithmetic in this file (no libc time functions, no wall clock):
//          FormatRfc1123(t) is the IMF-fixdate of t and ParseRfc1123 of it returns t;
//          when a string is, per the strict recogniser below, an IMF-fixdate / RFC 850 / asctime date
//          naming an existing day (right weekday, time <= 23:59:59), an accepted parse (!= -1) returns
//          exactly that time; RFC 850 two-digit years use the fixed pivot 70-99 -> 19xx, 00-69 -> 20xx.
//          Strings outside the three forms or naming no real day only have to be survived.
#include "squid.h"
#include "time/gadgets.h"

#include "verif_pbt.h"

// ------------------------------------------------------------------ reference calendar

static const char *const kMon[12] = {"Jan", "Feb", "Mar", "Apr", "May", "Jun", "Jul", "Aug", "Sep", "Oct", "Nov", "Dec"};
static const char *const kDay[7] = {"Sun", "Mon", "Tue", "Wed", "Thu", "Fri", "Sat"};
static const char *const kDayLong[7] = {"Sunday", "Monday", "Tuesday", "Wednesday", "Thursday", "Friday", "Saturday"};

static bool leap(const int64_t y) { return (y % 4 == 0 && y % 100 != 0) || y % 400 == 0; }
static int monthLength(const int64_t y, const int m /*1..12*/)
{
    static const int len[12] = {31, 28, 31, 30, 31, 30, 31, 31, 30, 31, 30, 31};
    return m == 2 && leap(y) ? 29 : len[m - 1];
}

/// days since 1970-01-01 of the proleptic Gregorian date y-m-d (m 1..12)
static int64_t daysFromCivil(int64_t y, const int m, const int d)
{
    y -= m <= 2;
    const int64_t era = (y >= 0 ? y : y - 399) / 400;
    const int64_t yoe = y - era * 400;
    const int64_t doy = (153 * (m + (m > 2 ? -3 : 9)) + 2) / 5 + d - 1;
    const int64_t doe = yoe * 365 + yoe / 4 - yoe / 100 + doy;
    return era * 146097 + doe - 719468;
}

struct Civil { int64_t y; int m, d, wday, hh, mm, ss; };

static Civil civilFromTime(const int64_t t)
{
    int64_t days = t / 86400, rem = t % 86400;
    if (rem < 0) { rem += 86400; --days; }
    Civil c;
    c.hh = static_cast<int>(rem / 3600); c.mm = static_cast<int>(rem % 3600 / 60); c.ss = static_cast<int>(rem % 60);
    c.wday = static_cast<int>(((days % 7) + 11) % 7); // 1970-01-01 was a Thursday (4)
    const int64_t z = days + 719468;
    const int64_t era = (z >= 0 ? z : z - 146096) / 146097;
    const int64_t doe = z - era * 146097;
    const int64_t yoe = (doe - doe / 1460 + doe / 36524 - doe / 146096) / 365;
    const int64_t doy = doe - (365 * yoe + yoe / 4 - yoe / 100);
    const int64_t mp = (5 * doy + 2) / 153;
    c.d = static_cast<int>(doy - (153 * mp + 2) / 5 + 1);
    c.m = static_cast<int>(mp < 10 ? mp + 3 : mp - 9);
    c.y = yoe + era * 400 + (c.m <= 2);
    return c;
}

static const int64_t kMaxTime = 253402300799LL; // 9999-12-31 23:59:59

static std::string two(const int v) { char b[8]; snprintf(b, sizeof b, "%02d", v); return b; }

static std::string renderImf(const Civil &c)
{
    char y[16]; snprintf(y, sizeof y, "%04lld", static_cast<long long>(c.y));
    return std::string(kDay[c.wday]) + ", " + two(c.d) + " " + kMon[c.m - 1] + " " + y + " " + two(c.hh) + ":" + two(c.mm) + ":" + two(c.ss) + " GMT";
}
static std::string renderRfc850(const Civil &c)
{
    return std::string(kDayLong[c.wday]) + ", " + two(c.d) + "-" + kMon[c.m - 1] + "-" + two(static_cast<int>(c.y % 100)) + " " + two(c.hh) + ":" + two(c.mm) + ":" + two(c.ss) + " GMT";
}
static std::string renderAsctime(const Civil &c)
{
    char d[8]; snprintf(d, sizeof d, "%2d", c.d);
    char y[16]; snprintf(y, sizeof y, "%04lld", static_cast<long long>(c.y));
    return std::string(kDay[c.wday]) + " " + kMon[c.m - 1] + " " + d + " " + two(c.hh) + ":" + two(c.mm) + ":" + two(c.ss) + " " + y;
}

// ------------------------------------------------------------------ strict recogniser (RFC 7231 7.1.1.1)

enum Form { kNone, kImf, kRfc850, kAsctime };
static const char *const kFormNames[4] = {"none", "IMF-fixdate", "RFC850", "asctime"};

struct Recognised {
    Form form = kNone;
    bool realDay = false;      ///< day exists in that month/year and time-of-day <= 23:59:59
    bool weekdayRight = false;
    int64_t time = 0;
};

static bool digits(const std::string &s, const size_t pos, const size_t n, int &v)
{
    if (pos + n > s.size()) return false;
    v = 0;
    for (size_t i = 0; i < n; ++i) {
        if (s[pos + i] < '0' || s[pos + i] > '9') return false;
        v = v * 10 + (s[pos + i] - '0');
    }
    return true;
}
static bool lit(const std::string &s, size_t &pos, const char *text)
{
    const size_t n = strlen(text);
    if (s.compare(pos, n, text) != 0) return false;
    pos += n;
    return true;
}
static int nameIndex(const std::string &s, size_t &pos, const char *const *names, const int count)
{
    for (int i = 0; i < count; ++i) {
        const size_t n = strlen(names[i]);
        if (s.compare(pos, n, names[i]) == 0) { pos += n; return i; }
    }
    return -1;
}
static bool timeOfDay(const std::string &s, size_t &pos, int &hh, int &mm, int &ss)
{
    if (!digits(s, pos, 2, hh) || pos + 2 >= s.size() || s[pos + 2] != ':') return false;
    if (!digits(s, pos + 3, 2, mm) || pos + 5 >= s.size() || s[pos + 5] != ':') return false;
    if (!digits(s, pos + 6, 2, ss)) return false;
    pos += 8;
    return true;
}

static Recognised finish(const Form f, const int wday, const int64_t y, const int m, const int d, const int hh, const int mm, const int ss)
{
    Recognised r;
    r.form = f;
    r.realDay = d >= 1 && d <= monthLength(y, m) && hh <= 23 && mm <= 59 && ss <= 59;
    if (!r.realDay) return r;
    r.time = daysFromCivil(y, m, d) * 86400 + hh * 3600 + mm * 60 + ss;
    r.weekdayRight = civilFromTime(r.time).wday == wday;
    return r;
}

static Recognised recognise(const std::string &s)
{
    int d = 0, y = 0, hh = 0, mm = 0, ss = 0;
    { // IMF-fixdate  = day-name "," SP 2DIGIT SP month SP 4DIGIT SP time SP "GMT"
        size_t p = 0;
        const int w = nameIndex(s, p, kDay, 7);
        if (w >= 0 && lit(s, p, ", ") && digits(s, p, 2, d)) {
            p += 2;
            int mon = -1;
            if (lit(s, p, " ") && (mon = nameIndex(s, p, kMon, 12)) >= 0 && lit(s, p, " ") && digits(s, p, 4, y)) {
                p += 4;
                if (lit(s, p, " ") && timeOfDay(s, p, hh, mm, ss) && lit(s, p, " GMT") && p == s.size())
                    return finish(kImf, w, y, mon + 1, d, hh, mm, ss);
            }
        }
    }
    { // rfc850-date  = day-name-l "," SP 2DIGIT "-" month "-" 2DIGIT SP time SP "GMT"
        size_t p = 0;
        const int w = nameIndex(s, p, kDayLong, 7);
        if (w >= 0 && lit(s, p, ", ") && digits(s, p, 2, d)) {
            p += 2;
            int mon = -1;
            if (lit(s, p, "-") && (mon = nameIndex(s, p, kMon, 12)) >= 0 && lit(s, p, "-") && digits(s, p, 2, y)) {
                p += 2;
                if (lit(s, p, " ") && timeOfDay(s, p, hh, mm, ss) && lit(s, p, " GMT") && p == s.size())
                    return finish(kRfc850, w, y >= 70 ? 1900 + y : 2000 + y, mon + 1, d, hh, mm, ss);
            }
        }
    }
    { // asctime-date = day-name SP month SP ( 2DIGIT / ( SP 1DIGIT )) SP time SP 4DIGIT
        size_t p = 0;
        const int w = nameIndex(s, p, kDay, 7);
        int mon = -1;
        if (w >= 0 && lit(s, p, " ") && (mon = nameIndex(s, p, kMon, 12)) >= 0 && lit(s, p, " ")) {
            bool okDay = false;
            if (digits(s, p, 2, d)) { p += 2; okDay = true; }
            else if (p < s.size() && s[p] == ' ' && digits(s, p + 1, 1, d)) { p += 2; okDay = true; }
            if (okDay && lit(s, p, " ") && timeOfDay(s, p, hh, mm, ss) && lit(s, p, " ") && digits(s, p, 4, y) && p + 4 == s.size())
                return finish(kAsctime, w, y, mon + 1, d, hh, mm, ss);
        }
    }
    return Recognised();
}

// ------------------------------------------------------------------ time generator

static rc::Gen<int64_t> genTime(const int64_t lo, const int64_t hi)
{
    using namespace rc;
    return gen::exec([lo, hi]() -> int64_t {
        const int kind = *vp::range<int>(0, 9);
        int64_t t = 0;
        if (kind <= 2) { // a calendar boundary: last/first second of a month, leap days, year ends
            const int64_t y = *vp::range<int64_t>(civilFromTime(lo).y, civilFromTime(hi).y);
            const int m = *vp::range<int>(1, 12);
            const int which = *vp::range<int>(0, 3);
            const int d = which == 0 ? 1 : which == 1 ? monthLength(y, m) : which == 2 ? std::min(29, monthLength(y, m)) : *vp::range<int>(1, monthLength(y, m));
            t = daysFromCivil(y, m, d) * 86400 + *gen::element(0, 1, 43200, 86399, 86398, 3599, 3600, 59, 60);
        } else if (kind == 3) { // around binary/decimal landmarks
            t = *gen::element<int64_t>(0, 1, 86399, 86400, 2147483647LL, 2147483648LL, 4294967295LL, 4294967296LL, 1000000000LL, 946684800LL, 951782400LL, 4102444800LL, 32503680000LL, 253402300799LL, 253402214400LL, 68169600LL)
                + *vp::range<int>(-2, 2);
        } else if (kind <= 6) { // the RFC 850 window 1970..2069
            t = *vp::range<int64_t>(0, 3155759999LL);
        } else {
            t = *vp::range<int64_t>(lo, hi);
        }
        return std::max(lo, std::min(hi, t));
    });
}

// ------------------------------------------------------------------ sub-property 1: Format -> Parse

struct TimeCase { int64_t t = 0; };
static std::string showTime(const TimeCase &c) { return vp::Writer().i("t", c.t).str(); }
static TimeCase parseTime(const std::string &s) { vp::Reader r(s); TimeCase c; c.t = r.i("t"); return c; }

static vp::Verdict judgeRoundTrip(const int64_t t)
{
    const std::string got = Time::FormatRfc1123(static_cast<time_t>(t));
    const std::string want = renderImf(civilFromTime(t));
    if (got != want)
        return vp::fail("format:not-the-imf-fixdate-of-t", "t=" + std::to_string(t) + " got " + vp::esc(got) + " want " + want);
    const int64_t back = Time::ParseRfc1123(got.c_str());
    if (back != t)
        return vp::fail("roundtrip:parse-of-format-differs", "t=" + std::to_string(t) + " text " + vp::esc(got) + " parsed " + std::to_string(back));
    return vp::pass();
}

static vp::Verdict checkTime(const TimeCase &c, vp::Ctx &ctx)
{
    if (c.t < 0 || c.t > kMaxTime) { ctx.excluded("replayed time outside 1970..9999"); return vp::pass(); }
    const Civil cv = civilFromTime(c.t);
    const bool monthEdge = cv.d == 1 || cv.d == monthLength(cv.y, cv.m);
    const bool dayEdge = c.t % 86400 <= 1 || c.t % 86400 >= 86398;
    if (cv.m == 2 && cv.d == 29) ctx.label("leap-day");
    if (monthEdge) ctx.label("first-or-last-day-of-month");
    if (dayEdge) ctx.label("first-or-last-seconds-of-day");
    if (c.t > 2147483647LL) ctx.label("beyond-2^31");
    if (cv.y > 2100) ctx.label("after-2100");
    if (monthEdge || dayEdge || c.t > 2147483647LL) ctx.nontrivial();
    return judgeRoundTrip(c.t);
}

// ------------------------------------------------------------------ sub-property 2: the three forms, mutated

struct StrCase { std::string s; };
static std::string showStr(const StrCase &c) { return vp::Writer().s("s", c.s).str(); }
static StrCase parseStr(const std::string &t) { vp::Reader r(t); StrCase c; c.s = r.s("s"); return c; }

static rc::Gen<StrCase> genDateString()
{
    using namespace rc;
    return gen::exec([]() {
        const int form = *vp::range<int>(1, 3);
        // RFC 850 can only express 1970..2069; the others any 4-digit year (pre-1970 included)
        const int64_t t = form == kRfc850 ? *genTime(0, 3155759999LL)
                          : (*vp::range<int>(0, 9) == 0 ? *vp::range<int64_t>(-62135596800LL, -1) : *genTime(0, kMaxTime));
        Civil cv = civilFromTime(t);
        // field-level mutations (still rendered in the strict shape)
        const int nField = *gen::weightedElement<int>({{6, 0}, {3, 1}, {1, 2}});
        for (int i = 0; i < nField; ++i) {
            switch (*vp::range<int>(0, 6)) {
            case 0: cv.d = *gen::element(29, 30, 31, 0, 32); break;       // may name no real day
            case 1: cv.wday = *vp::range<int>(0, 6); break;               // weekday may be wrong
            case 2: cv.ss = *gen::element(59, 60, 61, 0); break;
            case 3: cv.hh = *gen::element(23, 24, 0, 12); break;
            case 4: cv.mm = *gen::element(59, 60, 0); break;
            case 5: cv.m = *vp::range<int>(1, 12); break;
            default: cv.y = *gen::element<int64_t>(1969, 1970, 1999, 2000, 2038, 2049, 2050, 2069, 2070, 2100, 9999, 1900, 1); break;
            }
        }
        std::string s = form == kImf ? renderImf(cv) : form == kRfc850 ? renderRfc850(cv) : renderAsctime(cv);
        // text-level mutations (usually leave the strict shape)
        const int nText = *gen::weightedElement<int>({{5, 0}, {3, 1}, {2, 2}});
        for (int i = 0; i < nText && !s.empty(); ++i) {
            const size_t pos = *vp::range<size_t>(0, s.size() - 1);
            switch (*vp::range<int>(0, 11)) {
            case 0: s[pos] = static_cast<char>(isupper(static_cast<unsigned char>(s[pos])) ? tolower(static_cast<unsigned char>(s[pos])) : toupper(static_cast<unsigned char>(s[pos]))); break;
            case 1: s.insert(pos, 1, ' '); break;
            case 2: { const size_t g = s.rfind(" GMT"); if (g != std::string::npos) s.erase(g); break; }           // missing zone
            case 3: { const size_t g = s.rfind("GMT"); if (g != std::string::npos) s.replace(g, 3, *gen::element(std::string("UTC"), std::string("PST"), std::string("+0000"), std::string("gmt"), std::string("GMT+1"), std::string("Z"))); break; }
            case 4: s.resize(pos); break;                                                                       // truncated
            case 5: s[pos] = static_cast<char>('0' + *vp::range<int>(0, 9)); break;
            case 6: { // 2-digit <-> 4-digit year
                char y4[8]; snprintf(y4, sizeof y4, "%04lld", static_cast<long long>(cv.y));
                const std::string y2 = two(static_cast<int>(((cv.y % 100) + 100) % 100));
                const size_t a = s.rfind(y4);
                if (a != std::string::npos) s.replace(a, 4, y2);
                else { const size_t b = s.find("-" + y2 + " "); if (b != std::string::npos) s.replace(b + 1, 2, y4); }
                break;
            }
            case 7: s.erase(pos, 1); break;
            case 8: s += *gen::element(std::string(" "), std::string(" GMT"), std::string("x"), std::string(" 1994"), std::string(",")); break;
            case 9: s.insert(0, *gen::element(std::string(" "), std::string("\t"), std::string("x"))); break;
            case 10: { const size_t c = s.find(','); if (c != std::string::npos) s.erase(c, 1); break; }
            default: s[pos] = static_cast<char>(*vp::range<int>(0x20, 0x7e)); break;
            }
        }
        s.erase(std::remove(s.begin(), s.end(), '\0'), s.end());
        StrCase c;
        c.s = s;
        return c;
    });
}

static vp::Verdict judgeString(const std::string &s, vp::Ctx *ctx)
{
    const Recognised ref = recognise(s);
    const int64_t got = Time::ParseRfc1123(s.c_str());
    const bool accepted = got != -1;
    const bool judged = ref.form != kNone && ref.realDay && ref.weekdayRight;
    if (ctx) {
        ctx->label(std::string("strict-form:") + kFormNames[ref.form]);
        if (ref.form != kNone && !ref.realDay) ctx->label("names-no-real-day-or-time");
        if (ref.form != kNone && ref.realDay && !ref.weekdayRight) ctx->label("weekday-contradicts-date");
        ctx->label(accepted ? "squid-accepts" : "squid-rejects");
        if (judged) ctx->label(std::string("judged:") + kFormNames[ref.form]);
        if (judged && accepted) ctx->label("judged-and-accepted");
        if (!judged && accepted) ctx->excluded("accepted a string outside the strict forms / naming no real day / with a contradicting weekday (not judged)");
        if (judged && ref.form == kRfc850 && ref.time >= 2524608000LL) ctx->label("rfc850-year-2050-2069");
        if (judged) ctx->nontrivial();
    }
    if (!judged || !accepted) return vp::pass();
    if (got != ref.time)
        return vp::fail(std::string("parse:wrong-time:") + kFormNames[ref.form], "text " + vp::esc(s) + " parsed " + std::to_string(got) + " denotes " + std::to_string(ref.time));
    return vp::pass();
}

static vp::Verdict checkString(const StrCase &c, vp::Ctx &ctx)
{
    if (c.s.find('\0') != std::string::npos) { ctx.excluded("string contains NUL (not a C string)"); return vp::pass(); }
    return judgeString(c.s, &ctx);
}

// ------------------------------------------------------------------ sub-property 3: every day 1970..9999

/// unit u = days [4096u, 4096u+4095] (clipped to 2 932 896 = 9999-12-31); each day is checked at second
/// hash(seed, day) % 86400 in all three forms (RFC 850 only inside its 1970..2069 window)
struct DayCase { int unit = 0; uint64_t seed = 0; };
static std::string showDay(const DayCase &c) { return vp::Writer().i("unit", c.unit).u("seed", c.seed).str(); }
static DayCase parseDay(const std::string &t) { vp::Reader r(t); DayCase c; c.unit = static_cast<int>(r.i("unit")); c.seed = r.u("seed"); return c; }

static const int64_t kLastDay = 2932896;
static const int kDayUnits = static_cast<int>(kLastDay / 4096 + 1); // 717

struct Enumerator { uint64_t total; bool started = false; uint64_t next = 0, produced = 0; };
static Enumerator gEnumDays{static_cast<uint64_t>(kDayUnits)};

static rc::Gen<DayCase> genDay()
{
    return rc::gen::exec([]() {
        Enumerator &e = gEnumDays;
        if (!e.started) { e.started = true; e.next = *vp::range<uint64_t>(0, e.total - 1); }
        DayCase c;
        c.unit = static_cast<int>(e.next);
        e.next = (e.next + 1) % e.total;
        ++e.produced;
        c.seed = *rc::gen::arbitrary<uint64_t>();
        return c;
    });
}

static vp::Verdict checkDays(const DayCase &c, vp::Ctx &ctx)
{
    if (c.unit < 0 || c.unit >= kDayUnits) { ctx.excluded("malformed replay"); return vp::pass(); }
    uint64_t n = 0, accepted850 = 0, acceptedAsc = 0; // acceptance of the other two forms is not required, only counted
    for (int64_t day = 4096LL * c.unit; day <= std::min<int64_t>(kLastDay, 4096LL * c.unit + 4095); ++day) {
        uint64_t z = c.seed + 0x9E3779B97F4A7C15ULL * static_cast<uint64_t>(day + 1);
        z = (z ^ (z >> 30)) * 0xBF58476D1CE4E5B9ULL;
        z = (z ^ (z >> 27)) * 0x94D049BB133111EBULL;
        z ^= z >> 31;
        const int64_t t = day * 86400 + static_cast<int64_t>(z % 86400);
        auto v = judgeRoundTrip(t);
        if (!v.ok) return v;
        const Civil cv = civilFromTime(t);
        v = judgeString(renderAsctime(cv), nullptr);
        if (!v.ok) return v;
        if (t <= 3155759999LL) {
            v = judgeString(renderRfc850(cv), nullptr);
            if (!v.ok) return v;
            if (Time::ParseRfc1123(renderRfc850(cv).c_str()) == t) ++accepted850;
        }
        if (Time::ParseRfc1123(renderAsctime(cv).c_str()) == t) ++acceptedAsc;
        ++n;
    }
    ctx.labels["days-evaluated"] += n;
    ctx.labels["reference-rfc850-renderings-accepted-with-right-time"] += accepted850;
    ctx.labels["reference-asctime-renderings-accepted-with-right-time"] += acceptedAsc;
    if (gEnumDays.started && gEnumDays.produced % gEnumDays.total == 0) ctx.label("complete-enumeration-finished");
    ctx.nontrivial();
    return vp::pass();
}

static void registerAll()
{
    vp::add<TimeCase>("format_parse_roundtrip", rc::gen::exec([]() { TimeCase c; c.t = *genTime(0, kMaxTime); return c; }), checkTime, showTime, parseTime, 1.0);
    vp::add<StrCase>("parse_three_forms_mutated", genDateString(), checkString, showStr, parseStr, 2.0);
    vp::add<DayCase>("every_day_1970_9999", genDay(), checkDays, showDay, parseDay, 0.005);
}

VP_MAIN(registerAll)
