// C37 DNS message decoding is memory-safe and faithful.
// Domain : responses from a reference encoder (header flags/rcode/counts, one question, 0-20 answers of
//          type A/AAAA/PTR/CNAME/unknown, authority/additional records incl. OPT, names over host-name
//          alphabets with compression pointers: backward, to pointers, into the question), a hostile-label
//          class (dots, NULs, 63-byte labels, maximal names) and byte-level mutations (pointer loops,
//          pointers past the end, label length 64+, reserved label bits, rdlength lies, truncation, count
//          lies, byte flips); queries built by rfc1035Build*/rfc3596Build*.
// Oracle : an independent strict decoder written from RFC 1035 section 4 classifies the datagram.  Fully
//          well-formed => return value == ANCOUNT (0 / -RCODE as documented), header, question and every
//          answer equal the reference (A/AAAA/CNAME/unknown: raw RDATA; PTR: dotted target name).  Any
//          datagram => ASan/UBSan silent (the datagram is an exactly sized heap block), the call returns,
//          records behind the returned count are unpopulated, and well-formed leading records equal the
//          reference.  Built queries decode back to id, flags and question.
#include "squid.h"
#include "dns/rfc1035.h"
#include "dns/rfc2671.h"
#include "dns/rfc3596.h"
#include "SquidConfig.h"

#include "verif_pbt.h"

#include <arpa/inet.h>
#include <memory>
#include <signal.h>
#include <sys/wait.h>
#include <unistd.h>

extern "C" const char *__asan_default_options() { return "quarantine_size_mb=8:thread_local_quarantine_size_kb=64:allocator_release_to_os_interval_ms=-1"; }


/// Whether SIG is listed as an open known finding for this run (--known on the command line, VP_KNOWN for
/// libFuzzer).  The "continue behind a known crashing class" detours are taken only while their signature is
/// listed; otherwise the class is executed like any other input and a sanitizer abort is a violation.
static bool knownOpen(const std::string &sig)
{
    static const std::set<std::string> *known = [] {
        std::string list;
        if (const char *e = getenv("VP_KNOWN")) list = e;
        std::ifstream f("/proc/self/cmdline", std::ios::binary);
        const std::string all((std::istreambuf_iterator<char>(f)), std::istreambuf_iterator<char>());
        std::vector<std::string> args;
        std::string cur;
        for (char ch : all) { if (ch == '\0') { args.push_back(cur); cur.clear(); } else cur += ch; }
        if (!cur.empty()) args.push_back(cur);
        for (size_t i = 0; i + 1 < args.size(); ++i) if (args[i] == "--known") list += "," + args[i + 1];
        return new std::set<std::string>(vp::splitCsv(list));
    }();
    return known->count(sig) > 0;
}

// ------------------------------------------------------------------ reference decoder (RFC 1035 4.1)

struct RefRR {
    std::string name; bool nameHostile = false;
    unsigned type = 0, cls = 0; uint32_t ttl = 0;
    std::string rdata;          // raw RDATA
    std::string ptrName; bool ptrHostile = false; // type PTR: decompressed target
};

struct RefMsg {
    bool headerOk = false, questionOk = false;
    unsigned id = 0, qr = 0, opcode = 0, aa = 0, tc = 0, rd = 0, ra = 0, rcode = 0, qd = 0, an = 0, ns = 0, ar = 0;
    std::string qname; bool qnameHostile = false; unsigned qtype = 0, qclass = 0;
    std::vector<RefRR> answers; // the well-formed leading answers
    bool allAnswersOk = false;
    unsigned pointers = 0;      // compression pointers followed while decoding question + answers
    std::string why;            // first malformation
};

static unsigned u8(const std::string &b, size_t o) { return static_cast<unsigned char>(b[o]); }
static unsigned u16(const std::string &b, size_t o) { return (u8(b, o) << 8) | u8(b, o + 1); }

/// decodes a possibly compressed name starting at off; advances off past the name's in-place octets
static bool refName(const std::string &b, size_t &off, std::string &text, bool &hostile, unsigned &pointers, std::string &why)
{
    size_t p = off;
    bool jumped = false;
    unsigned hops = 0;
    size_t wire = 1; // the root label
    text.clear();
    bool first = true;
    for (;;) {
        if (p >= b.size()) { why = "name runs past the end"; return false; }
        const unsigned c = u8(b, p);
        if ((c & 0xC0) == 0xC0) {
            if (p + 2 > b.size()) { why = "pointer runs past the end"; return false; }
            const size_t target = u16(b, p) & 0x3FFF;
            if (!jumped) off = p + 2;
            jumped = true;
            if (target >= b.size()) { why = "pointer past the end"; return false; }
            if (++hops > 30) { why = "pointer chain longer than 30 (loop?)"; return false; }
            ++pointers;
            p = target;
            continue;
        }
        if (c & 0xC0) { why = "reserved label type"; return false; }
        if (c == 0) { if (!jumped) off = p + 1; break; }
        if (p + 1 + c >= b.size()) { why = "label runs past the end"; return false; } // a label is always followed by at least one octet
        wire += 1 + c;
        if (wire > 255) { why = "name longer than 255 octets"; return false; }
        if (!first) text += '.';
        first = false;
        for (size_t i = 0; i < c; ++i) {
            const char ch = b[p + 1 + i];
            if (ch == '.' || ch == '\0') hostile = true;
            text += ch;
        }
        p += 1 + c;
    }
    return true;
}

static RefMsg refDecode(const std::string &b)
{
    RefMsg m;
    if (b.size() < 12) { m.why = "shorter than a header"; return m; }
    m.headerOk = true;
    m.id = u16(b, 0);
    const unsigned t = u16(b, 2);
    m.qr = t >> 15; m.opcode = (t >> 11) & 15; m.aa = (t >> 10) & 1; m.tc = (t >> 9) & 1; m.rd = (t >> 8) & 1; m.ra = (t >> 7) & 1; m.rcode = t & 15;
    m.qd = u16(b, 4); m.an = u16(b, 6); m.ns = u16(b, 8); m.ar = u16(b, 10);
    if (m.qd != 1) { m.why = "QDCOUNT is not 1"; return m; }
    size_t off = 12;
    if (!refName(b, off, m.qname, m.qnameHostile, m.pointers, m.why)) return m;
    if (off + 4 > b.size()) { m.why = "question runs past the end"; return m; }
    m.qtype = u16(b, off); m.qclass = u16(b, off + 2);
    off += 4;
    m.questionOk = true;
    for (unsigned i = 0; i < m.an; ++i) {
        RefRR rr;
        if (off >= b.size()) { m.why = "answer section runs past the end"; return m; }
        if (!refName(b, off, rr.name, rr.nameHostile, m.pointers, m.why)) return m;
        if (off + 10 > b.size()) { m.why = "RR header runs past the end"; return m; }
        rr.type = u16(b, off); rr.cls = u16(b, off + 2);
        rr.ttl = (static_cast<uint32_t>(u16(b, off + 4)) << 16) | u16(b, off + 6);
        const size_t rdlen = u16(b, off + 8);
        off += 10;
        if (off + rdlen > b.size()) { m.why = "RDATA runs past the end"; return m; }
        rr.rdata = b.substr(off, rdlen);
        if (rr.type == 12) {
            size_t p = off;
            if (!refName(b, p, rr.ptrName, rr.ptrHostile, m.pointers, m.why)) return m;
            if (p > off + rdlen) { m.why = "PTR target runs past its RDATA"; return m; }
        }
        off += rdlen;
        m.answers.push_back(rr);
    }
    m.allAnswersOk = true;
    return m;
}

// ------------------------------------------------------------------ reference encoder

using Labels = std::vector<std::string>;

struct Encoder {
    std::string out;
    std::vector<std::pair<Labels, size_t>> table; // suffix -> offset of an occurrence (label sequence or pointer)
    unsigned pointersWritten = 0;

    long find(const Labels &suffix) const
    {
        for (size_t i = table.size(); i-- > 0;) if (table[i].first == suffix) return static_cast<long>(table[i].second);
        return -1;
    }
    /// mode 0: no compression, 1: longest known suffix, 2: as 1 and remember the pointer itself as an occurrence
    void name(const Labels &ls, int mode)
    {
        for (size_t i = 0; i < ls.size(); ++i) {
            const Labels suffix(ls.begin() + i, ls.end());
            const long at = mode ? find(suffix) : -1;
            if (at >= 0 && at < 0x3FFF) {
                if (mode == 2 && out.size() < 0x3FFF) table.emplace_back(suffix, out.size()); // later names may point to this pointer
                out += static_cast<char>(0xC0 | (at >> 8));
                out += static_cast<char>(at & 255);
                ++pointersWritten;
                return;
            }
            if (out.size() < 0x3FFF) table.emplace_back(suffix, out.size());
            out += static_cast<char>(ls[i].size());
            out += ls[i];
        }
        out += '\0';
    }
    void u16(unsigned v) { out += static_cast<char>(v >> 8); out += static_cast<char>(v & 255); }
    void u32(uint32_t v) { u16(v >> 16); u16(v & 0xffff); }
};

static const std::string HostAlphabet = "abcdefghijklmnopqrstuvwxyz0123456789-";

/// Deterministic expansion of rapidcheck-generated 64-bit seeds.  Building every octet through its own
/// rapidcheck generator costs several milliseconds per message; the structure-level choices (compression
/// mode, record count, mutation count) stay rapidcheck choices and shrink, the octets come from here.
struct Rng {
    uint64_t x;
    explicit Rng(uint64_t seed): x(seed * 0x9E3779B97F4A7C15ULL + 0x632BE59BD9B4E019ULL) { if (!x) x = 1; next(); next(); }
    uint64_t next() { x ^= x << 13; x ^= x >> 7; x ^= x << 17; return x; }
    /// uniform in [lo, hi]
    size_t range(size_t lo, size_t hi) { return lo + static_cast<size_t>((next() >> 11) % (hi - lo + 1)); }
    bool coin(unsigned oneIn) { return range(0, oneIn - 1) == 0; }
    template <class T> T pick(std::initializer_list<T> l) { return *(l.begin() + range(0, l.size() - 1)); }
    std::string bytes(size_t n) { std::string s(n, '\0'); for (auto &ch : s) ch = static_cast<char>(next() >> 24); return s; }
};

static std::string makeLabel(Rng &r, bool hostile)
{
    const size_t k = r.range(0, 11);
    const size_t len = k < 8 ? r.range(1, 10) : k < 11 ? r.range(1, 30) : r.range(62, 63);
    std::string s(len, 'a');
    for (auto &ch : s) ch = HostAlphabet[r.range(0, HostAlphabet.size() - 1)];
    if (r.coin(6)) for (auto &ch : s) ch = static_cast<char>(toupper(static_cast<unsigned char>(ch)));
    if (hostile) {
        const size_t h = r.range(0, 4), at = r.range(0, s.size() - 1);
        if (h == 0) s[at] = '.';
        else if (h == 1) s[at] = '\0';
        else if (h == 2) s[at] = static_cast<char>(r.range(128, 255));
        else if (h == 3) s.assign(63, 'x');
    }
    return s;
}

static Labels makeName(Rng &r, bool hostile)
{
    Labels ls;
    const bool maximal = hostile && r.coin(4);
    const size_t n = maximal ? 4 : r.range(0, 5);
    size_t wire = 1;
    for (size_t i = 0; i < n; ++i) {
        const std::string l = maximal ? std::string(i == 3 ? 61 : 63, static_cast<char>('a' + i)) : makeLabel(r, hostile && r.coin(2));
        if (wire + 1 + l.size() > 255) break;
        wire += 1 + l.size();
        ls.push_back(l);
    }
    return ls;
}

/// rapidcheck-level view of makeName for the query builders
static rc::Gen<Labels> nameGen(bool hostile)
{
    return rc::gen::map(rc::gen::arbitrary<uint64_t>(), [hostile](uint64_t seed) { Rng r(seed); return makeName(r, hostile); });
}

struct Case {
    std::string bytes; // the datagram
    std::string note;  // how it was built
};
static std::string show(const Case &c) { return vp::Writer().s("bytes", c.bytes).s("note", c.note).str(); }
static Case parse(const std::string &t) { vp::Reader r(t); Case c; c.bytes = r.s("bytes"); c.note = r.s("note"); return c; }

static rc::Gen<Case> gen()
{
    using namespace rc;
    return gen::exec([]() {
        Case c;
        Rng r(*gen::arbitrary<uint64_t>());
        const bool hostile = *vp::range<int>(0, 9) == 0;
        const int compress = *gen::weightedElement<int>({{1, 0}, {3, 1}, {3, 2}});
        const unsigned an = *gen::weightedElement<unsigned>({{1, 0}, {3, 1}, {3, 2}, {2, 3}, {2, 6}, {1, 12}, {1, 20}});
        const int nm = *gen::weightedElement<int>({{6, 0}, {3, 1}, {1, 2}, {1, 3}});
        c.note = hostile ? "hostile-labels" : "host-names";
        // a pool of names that share suffixes
        std::vector<Labels> pool;
        const size_t np = r.range(1, 4);
        for (size_t i = 0; i < np; ++i) {
            Labels l = makeName(r, hostile);
            if (!pool.empty() && r.coin(2)) { // prepend labels to an existing name: shared suffix
                const Labels base = pool[r.range(0, pool.size() - 1)];
                Labels pre = makeName(r, false);
                if (pre.size() > 2) pre.resize(2);
                size_t wire = 1; for (const auto &x : base) wire += 1 + x.size();
                for (const auto &x : pre) wire += 1 + x.size();
                if (wire <= 255) { pre.insert(pre.end(), base.begin(), base.end()); l = pre; }
            }
            pool.push_back(l);
        }
        auto pick = [&]() -> const Labels & { return pool[r.range(0, pool.size() - 1)]; };
        auto mode = [&]() { return compress == 0 ? 0 : (r.coin(6) ? 0 : compress); };

        Encoder e;
        e.u16(r.range(0, 65535));
        unsigned flags = r.coin(20) ? 0 : 0x8000; // QR
        flags |= r.pick<unsigned>({0, 0, 0, 0, 0, 0, 0, 0, 1, 2, 15}) << 11;
        flags |= static_cast<unsigned>(r.range(0, 15)) << 7;                   // AA TC RD RA
        flags |= (r.coin(8) ? static_cast<unsigned>(r.range(1, 7)) : 0u) << 4;  // Z bits, ignored by receivers
        flags |= r.pick<unsigned>({0, 0, 0, 0, 0, 0, 0, 0, 3, 2, 5, 15});       // RCODE
        e.u16(flags);
        const unsigned ns = r.pick<unsigned>({0, 0, 0, 1, 2});
        const unsigned ar = r.pick<unsigned>({0, 0, 0, 1, 2});
        e.u16(1); e.u16(an); e.u16(ns); e.u16(ar);
        // question
        const Labels qname = pick();
        e.name(qname, 0);
        e.u16(r.pick<unsigned>({1, 28, 12, 5, 255})); e.u16(r.pick<unsigned>({1, 1, 1, 1, 1, 1, 1, 1, 3, 255}));
        // records
        auto record = [&](bool answer) {
            const Labels &owner = r.coin(3) ? pick() : qname;
            e.name(owner, mode());
            unsigned type = answer ? r.pick<unsigned>({1, 1, 1, 1, 28, 28, 28, 28, 12, 12, 12, 5, 5, 5, 0, 0}) : r.pick<unsigned>({2, 6, 1, 0});
            if (!type) type = r.pick<unsigned>({2, 6, 15, 16, 33, 41, 99, 255, 65535, 13});
            e.u16(type);
            e.u16(r.pick<unsigned>({1, 1, 1, 1, 1, 1, 1, 1, 3, 0, 65535}));
            e.u32(r.coin(2) ? r.pick<uint32_t>({0, 1, 60, 86400, 0x7fffffff, 0x80000000u, 0xffffffffu}) : static_cast<uint32_t>(r.next() >> 16));
            const size_t lenAt = e.out.size();
            e.u16(0);
            if (type == 1) e.out += r.bytes(4);
            else if (type == 28) e.out += r.bytes(16);
            else if (type == 12 || type == 5 || type == 2) e.name(pick(), mode());
            else e.out += r.bytes(r.range(0, 24));
            const size_t rdlen = e.out.size() - lenAt - 2;
            e.out[lenAt] = static_cast<char>(rdlen >> 8); e.out[lenAt + 1] = static_cast<char>(rdlen & 255);
        };
        for (unsigned i = 0; i < an; ++i) record(true);
        for (unsigned i = 0; i < ns; ++i) record(false);
        for (unsigned i = 0; i < ar; ++i) {
            if (r.coin(2)) { e.out += '\0'; e.u16(41); e.u16(4096); e.u32(0); e.u16(0); } // OPT
            else record(false);
        }
        c.bytes = e.out;
        if (e.pointersWritten) c.note += " compressed";

        // ---- mutations
        for (int i = 0; i < nm && c.bytes.size() > 12; ++i) {
            std::string &b = c.bytes;
            const size_t mk = r.range(0, 9);
            const size_t at = r.range(12, b.size() - 1);
            switch (mk) {
            case 0: // pointer to itself, or two pointers to each other
                if (at + 3 < b.size()) {
                    const bool mutual = r.coin(2);
                    const size_t first = mutual ? at + 2 : at;
                    b[at] = static_cast<char>(0xC0 | (first >> 8)); b[at + 1] = static_cast<char>(first & 255);
                    if (mutual) { b[at + 2] = static_cast<char>(0xC0 | (at >> 8)); b[at + 3] = static_cast<char>(at & 255); }
                }
                c.note += " ptr-loop"; break;
            case 1: // pointer past the end / far away
                if (at + 1 < b.size()) {
                    const size_t tgt = r.coin(2) ? r.pick<size_t>({0x3FFF, 0x3000, 0x1000}) : b.size() + r.range(0, 3);
                    b[at] = static_cast<char>(0xC0 | ((tgt >> 8) & 0x3F)); b[at + 1] = static_cast<char>(tgt & 255);
                }
                c.note += " ptr-past-end"; break;
            case 2: b[at] = static_cast<char>(r.pick<int>({64, 65, 100, 127, 128, 191, 0x40 | 5, 0x80 | 5})); c.note += " label-len-or-reserved-bits"; break;
            case 3: // length lie: two octets overwritten with a length-like value
                if (at + 1 < b.size()) { const size_t v = r.pick<size_t>({0, 1, 3, 5, 17, 255, 256, 512, 65535, b.size()}); b[at] = static_cast<char>(v >> 8); b[at + 1] = static_cast<char>(v & 255); }
                c.note += " length-lie"; break;
            case 4: b.resize(at); c.note += " truncated"; break;
            case 5: b.resize(r.range(0, std::min<size_t>(b.size(), 40))); c.note += " truncated-early"; break;
            case 6: { const unsigned v = r.coin(40) ? 65535u : r.pick<unsigned>({0, 1, 2, 2, 3, 21, 21, 100, 300, 2000}); const size_t f = r.pick<size_t>({4, 6, 6, 6, 8, 10}); b[f] = static_cast<char>(v >> 8); b[f + 1] = static_cast<char>(v & 255); c.note += " count-lie"; break; }
            case 7: b[at] = static_cast<char>(r.range(0, 255)); c.note += " byte-flip"; break;
            case 8: b.insert(at, r.bytes(r.range(1, 6))); c.note += " insert"; break;
            default: b.erase(at, r.range(1, 4)); c.note += " delete"; break;
            }
        }
        if (nm) c.note += " mutated";
        return c;
    });
}

// The shared driver installs its own SIGSEGV handler (to dump the current case) without an alternate stack,
// so a stack overflow -- what a compression-pointer loop without the depth guard causes -- would kill the
// process silently.  ASan's own handler runs on an alternate stack, reports "stack-overflow" and still calls
// the driver's death callback, so it is put back before the first decode.
static struct sigaction AsanSegvHandler;
static void restoreAsanSegvHandler()
{
    static bool done = false;
    if (done) return;
    done = true;
    if (AsanSegvHandler.sa_handler != SIG_DFL && AsanSegvHandler.sa_handler != SIG_IGN)
        sigaction(SIGSEGV, &AsanSegvHandler, nullptr);
}

// ------------------------------------------------------------------ oracle

static bool allZero(const void *p, size_t n)
{
    const unsigned char *c = static_cast<const unsigned char *>(p);
    return n == 0 || (c[0] == 0 && memcmp(c, c + 1, n - 1) == 0);
}

/// Name equality.  A name that ends in a compression pointer to a root label (legal, though no encoder has a
/// reason to write it) comes out of rfc1035NameUnpack with a trailing dot: "www.example." for "www.example".
/// Both texts denote the same absolute name, so the difference is counted, not judged.
static bool sameName(const char *got, const std::string &want, vp::Ctx &ctx)
{
    if (want == got) return true;
    if (!want.empty() && want.back() != '.' && want + "." == got) { ctx.label("trailing-dot-after-pointer-to-root"); return true; }
    return false;
}

static vp::Verdict checkDecode(const Case &c, vp::Ctx &ctx)
{
    restoreAsanSegvHandler();
    const std::string &b = c.bytes;
    if (b.size() > 20000) { ctx.excluded("datagram larger than the harness bound"); return vp::pass(); }
    const RefMsg ref = refDecode(b);
    const bool mutated = c.note.find("mutated") != std::string::npos;
    const bool hostile = ref.qnameHostile || [&] { for (const auto &r : ref.answers) if (r.nameHostile || r.ptrHostile) return true; return false; }();

    // exactly sized heap copy: any access outside the datagram is an ASan report
    std::unique_ptr<char[]> dg(new char[b.size() ? b.size() : 1]);
    if (!b.empty()) memcpy(dg.get(), b.data(), b.size());
    rfc1035_message *msg = nullptr;
    const int ret = rfc1035MessageUnpack(dg.get(), b.size(), &msg);
    struct Guard { rfc1035_message **m; ~Guard() { if (*m) rfc1035MessageDestroy(m); } } guard{&msg};

    const bool wellFormed = ref.headerOk && ref.questionOk && ref.allAnswersOk;
    ctx.label(wellFormed ? "ref:well-formed" : "ref:malformed");
    if (!wellFormed) ctx.label("malformed:" + ref.why);
    if (hostile) ctx.label("hostile-labels");
    if (ref.pointers) ctx.label("compression-pointers-followed");
    if (mutated) ctx.label("mutated");
    if (ref.pointers || mutated) ctx.nontrivial();

    // ---- return value and message presence
    if (ret > 0 && !msg) return vp::fail("decode:positive-count-without-message");
    if (msg && ret > 0 && static_cast<unsigned>(ret) > msg->ancount) return vp::fail("decode:count-exceeds-ANCOUNT");
    if (msg && ret >= 0 && msg->ancount > 0 && !msg->answer) return vp::fail("decode:answers-missing");

    if (wellFormed) {
        if (ref.rcode) {
            ctx.label("rcode-nonzero");
            if (ret != -static_cast<int>(ref.rcode)) return vp::fail("decode:error-rcode-not-reported", "ret " + std::to_string(ret) + " rcode " + std::to_string(ref.rcode));
        } else if (ret != static_cast<int>(ref.an)) {
            return vp::fail("decode:well-formed-message-count-differs", "ret " + std::to_string(ret) + " ANCOUNT " + std::to_string(ref.an) + " (" + c.note + ")");
        }
        if (!msg) return vp::fail("decode:well-formed-message-without-result");
    }

    if (!msg && ref.headerOk && ref.questionOk && !ref.rcode && !ref.answers.empty())
        return vp::fail("decode:well-formed-leading-records-not-decoded", "ret " + std::to_string(ret) + " well-formed " + std::to_string(ref.answers.size()));

    // Two limits of the strict reference are not demanded by the statement: a receiver may decode names longer
    // than 255 octets or pointer chains longer than 30 hops.  Such datagrams are checked for safety only.
    const bool beyondReferenceLimits = ref.why == "name longer than 255 octets" || ref.why == "pointer chain longer than 30 (loop?)";
    if (beyondReferenceLimits) { ctx.excluded("name or pointer chain beyond the limits of the strict reference: memory safety only"); return vp::pass(); }

    if (msg) {
        // whatever was returned must be what the datagram says
        if (!ref.headerOk || !ref.questionOk) return vp::fail("decode:message-returned-for-undecodable-header-or-question", ref.why);
        if (msg->id != ref.id || msg->qr != ref.qr || msg->opcode != ref.opcode || msg->aa != ref.aa || msg->tc != ref.tc || msg->rd != ref.rd ||
                msg->ra != ref.ra || msg->rcode != ref.rcode || msg->qdcount != ref.qd || msg->ancount != ref.an || msg->nscount != ref.ns || msg->arcount != ref.ar)
            return vp::fail("decode:header-differs");
        if (!msg->query) return vp::fail("decode:question-missing");
        if (msg->query->qtype != ref.qtype || msg->query->qclass != ref.qclass) return vp::fail("decode:question-type-or-class-differs");
        if (memchr(msg->query->name, 0, sizeof(msg->query->name)) == nullptr) return vp::fail("decode:question-name-unterminated");
        if (!ref.qnameHostile && !sameName(msg->query->name, ref.qname, ctx)) return vp::fail("decode:question-name-differs", vp::esc(msg->query->name) + " want " + vp::esc(ref.qname));
        const int n = ret > 0 ? ret : 0;
        for (int j = 0; j < n; ++j) {
            const rfc1035_rr &rr = msg->answer[j];
            if (memchr(rr.name, 0, sizeof(rr.name)) == nullptr) return vp::fail("decode:record-name-unterminated");
            if (static_cast<size_t>(j) >= ref.answers.size()) { ctx.label("squid-decoded-more-records-than-the-strict-reference"); continue; }
            const RefRR &want = ref.answers[j];
            const std::string at = "answer #" + std::to_string(j) + " type " + std::to_string(want.type);
            if (!want.nameHostile && !sameName(rr.name, want.name, ctx)) return vp::fail("decode:record-name-differs", at + ": " + vp::esc(rr.name) + " want " + vp::esc(want.name));
            if (rr.type != want.type || rr._class != want.cls) return vp::fail("decode:record-type-or-class-differs", at);
            if (rr.ttl != want.ttl) return vp::fail("decode:record-ttl-differs", at + ": " + std::to_string(rr.ttl) + " want " + std::to_string(want.ttl));
            if (want.type == 12) {
                ctx.label("ptr-record-compared");
                if (!rr.rdata) return vp::fail("decode:ptr-target-missing", at);
                if (memchr(rr.rdata, 0, RFC1035_MAXHOSTNAMESZ) == nullptr) return vp::fail("decode:ptr-target-unterminated", at);
                if (!want.ptrHostile && !sameName(rr.rdata, want.ptrName, ctx)) return vp::fail("decode:ptr-target-differs", at + ": " + vp::esc(rr.rdata) + " want " + vp::esc(want.ptrName));
            } else {
                if (rr.rdlength != want.rdata.size()) return vp::fail("decode:rdlength-differs", at);
                if (want.rdata.size() && (!rr.rdata || memcmp(rr.rdata, want.rdata.data(), want.rdata.size()) != 0)) return vp::fail("decode:rdata-differs", at);
            }
        }
        if (ret < static_cast<int>(ref.answers.size()) && ret >= 0 && !ref.rcode)
            return vp::fail("decode:fewer-records-than-the-well-formed-leading-ones", "ret " + std::to_string(ret) + " well-formed " + std::to_string(ref.answers.size()));
        // records behind the returned count are unpopulated
        if (msg->answer)
            for (unsigned j = static_cast<unsigned>(n); j < msg->ancount; ++j)
                if (!allZero(&msg->answer[j], sizeof(rfc1035_rr))) return vp::fail("decode:record-behind-returned-count-populated", "index " + std::to_string(j));
        if (n > 0 && static_cast<unsigned>(n) < msg->ancount) ctx.label("partial-success");
    }
    return vp::pass();
}

// ------------------------------------------------------------------ built queries decode back

struct QCase {
    int kind = 0;          // 0 rfc3596 A, 1 rfc3596 AAAA, 2 rfc3596 PTR4, 3 rfc3596 PTR6, 4 rfc1035 A, 5 rfc1035 PTR
    std::string host;      // kinds 0,1,4
    std::string addr;      // 4 or 16 raw bytes
    unsigned qid = 0;
    long long edns = 0;    // Config.dns.packet_max / edns_sz
    int direct = 0;        // replay-only: build EDNS queries in this process (UBSan sees the known defect)
};
static std::string showQ(const QCase &c) { return vp::Writer().i("kind", c.kind).s("host", c.host).s("addr", c.addr).u("qid", c.qid).i("edns", c.edns).i("direct", c.direct).str(); }
static QCase parseQ(const std::string &t) { vp::Reader r(t); QCase c; c.kind = static_cast<int>(r.i("kind")); c.host = r.s("host"); c.addr = r.s("addr"); c.qid = static_cast<unsigned>(r.u("qid")); c.edns = r.i("edns"); c.direct = static_cast<int>(r.i("direct")); return c; }

static rc::Gen<QCase> genQ()
{
    using namespace rc;
    return gen::exec([]() {
        QCase c;
        c.kind = *vp::range<int>(0, 5);
        // callers pass host names whose labels are 1..63 octets (longer labels are truncated by design) and
        // whose total length fits a DNS name; a trailing dot is allowed
        const Labels ls = *nameGen(false);
        for (size_t i = 0; i < ls.size(); ++i) { if (i) c.host += '.'; c.host += ls[i]; }
        if (c.host.empty()) c.host = "a";
        if (*vp::range<int>(0, 4) == 0) c.host += '.';
        c.addr = *gen::container<std::string>(c.kind == 3 ? 16 : 4, gen::arbitrary<char>());
        c.qid = *gen::oneOf(gen::element<unsigned>(0, 1, 0x7fff, 0x8000, 0xffff), vp::range<unsigned>(0, 65535));
        c.edns = *gen::element<long long>(0, 0, 0, 0, 512, 4096, 16383, 100000);
        return c;
    });
}

static vp::Verdict checkQuery(const QCase &c, vp::Ctx &ctx)
{
    if (c.host.size() > 254 || c.host.find('\0') != std::string::npos || c.qid > 65535 || (c.kind == 3 ? c.addr.size() != 16 : c.addr.size() != 4)) {
        ctx.excluded("outside the callers' preconditions (hand-written replay)"); return vp::pass();
    }
    const size_t bufSize = 512; // RESOLV_BUFSZ of the callers in dns_internal.cc
    std::unique_ptr<char[]> buf(new char[bufSize]);
    memset(buf.get(), 0x5a, bufSize);
    rfc1035_query q;
    memset(&q, 0, sizeof(q));
    ssize_t sz = 0;
    std::string wantName = c.host;
    unsigned wantType = 1;
    char text[128];
    if (c.kind == 1) wantType = 28;
    if (c.kind == 2 || c.kind == 5) {
        const unsigned char *o = reinterpret_cast<const unsigned char *>(c.addr.data());
        snprintf(text, sizeof(text), "%u.%u.%u.%u.in-addr.arpa", o[3], o[2], o[1], o[0]);
        wantName = text; wantType = 12;
    } else if (c.kind == 3) {
        std::string s;
        for (int i = 15; i >= 0; --i) { snprintf(text, sizeof(text), "%x.%x.", static_cast<unsigned char>(c.addr[i]) & 15, static_cast<unsigned char>(c.addr[i]) >> 4); s += text; }
        wantName = s + "ip6.arpa"; wantType = 12;
    }
    auto build = [&]() {
        Config.dns.packet_max = c.edns;
        struct in_addr a4; memcpy(&a4, c.addr.data(), 4);
        switch (c.kind) {
        case 0: return rfc3596BuildAQuery(c.host.c_str(), buf.get(), bufSize, c.qid, &q);
        case 1: return rfc3596BuildAAAAQuery(c.host.c_str(), buf.get(), bufSize, c.qid, &q);
        case 4: return rfc1035BuildAQuery(c.host.c_str(), buf.get(), bufSize, c.qid, &q, c.edns);
        case 2: return rfc3596BuildPTRQuery4(a4, buf.get(), bufSize, c.qid, &q);
        case 5: return rfc1035BuildPTRQuery(a4, buf.get(), bufSize, c.qid, &q, c.edns);
        default: { struct in6_addr a6; memcpy(&a6, c.addr.data(), 16); return rfc3596BuildPTRQuery6(a6, buf.get(), bufSize, c.qid, &q); }
        }
    };
    ctx.label("kind-" + std::to_string(c.kind));
    if (c.edns > 0) ctx.label("edns");
    // Known class "query:ubsan-null-memcpy-source-in-rfc1035RRPack-for-OPT-record": every EDNS query passes a
    // null RDATA pointer to memcpy (rfc2671RROptPack -> rfc1035RRPack), which UBSan turns into an abort.  All
    // members of the class (edns size > 0) behave alike, and fork() of a sanitized process costs about a second
    // here, so the defect is probed once per process in a forked child: if the child dies with that report,
    // EDNS builds are not executed in this process (counted, reported under the known signature); if it
    // survives (repaired tree), EDNS queries are built and checked in-process like all others.
    static int ednsDefect = -1; // -1 not probed yet, 0 absent, 1 present
    static std::string ednsReport;
    if (c.edns > 0 && !c.direct && ednsDefect < 0 && knownOpen("query:ubsan-null-memcpy-source-in-rfc1035RRPack-for-OPT-record")) {
        int errFd[2];
        if (pipe(errFd) != 0) { ctx.excluded("pipe() failed"); return vp::pass(); }
        fflush(nullptr);
        const pid_t pid = fork();
        if (pid < 0) { close(errFd[0]); close(errFd[1]); ctx.excluded("fork() failed"); return vp::pass(); }
        if (pid == 0) {
            close(errFd[0]);
            dup2(errFd[1], 2);
            vp::current().crashPath.clear();
            (void)build();
            _exit(0);
        }
        close(errFd[1]);
        std::string report;
        char tmp[2048];
        ssize_t n;
        while ((n = read(errFd[0], tmp, sizeof(tmp))) > 0) report.append(tmp, static_cast<size_t>(n));
        close(errFd[0]);
        int status = 0;
        waitpid(pid, &status, 0);
        if (WIFEXITED(status) && WEXITSTATUS(status) == 0) {
            ednsDefect = 0;
        } else {
            for (size_t i = 0, lines = 0; i < report.size() && lines < 5; ++i) { ednsReport += report[i] == '\n' ? '|' : report[i]; if (report[i] == '\n') ++lines; }
            if (report.find("null pointer passed as argument 2") != std::string::npos && report.find("rfc1035.cc") != std::string::npos)
                ednsDefect = 1;
            else
                return vp::fail("query:builder-died", ednsReport);
        }
    }
    if (c.edns > 0 && !c.direct && ednsDefect == 1) {
        ctx.label("known-class:edns-build-not-executed");
        return vp::fail("query:ubsan-null-memcpy-source-in-rfc1035RRPack-for-OPT-record", ednsReport);
    }
    if (c.edns > 0 && c.direct) vp::current().crashPath.clear(); // replay-only in-process run: do not leave a crash dump next to the replay file
    sz = build();
    while (!wantName.empty() && wantName.back() == '.') wantName.pop_back();
    if (sz < 17 || static_cast<size_t>(sz) > bufSize) return vp::fail("query:implausible-size", std::to_string(sz));

    const std::string wire(buf.get(), static_cast<size_t>(sz));
    std::unique_ptr<char[]> dg(new char[wire.size()]);
    memcpy(dg.get(), wire.data(), wire.size());
    rfc1035_message *msg = nullptr;
    const int ret = rfc1035MessageUnpack(dg.get(), wire.size(), &msg);
    struct Guard { rfc1035_message **m; ~Guard() { if (*m) rfc1035MessageDestroy(m); } } guard{&msg};
    if (ret != 0 || !msg) return vp::fail("query:built-query-does-not-decode", "ret " + std::to_string(ret));
    if (msg->id != c.qid) return vp::fail("query:id-differs");
    if (msg->qr != 0 || msg->opcode != 0 || msg->rd != 1 || msg->aa || msg->tc || msg->ra || msg->rcode) return vp::fail("query:flags-differ");
    if (msg->qdcount != 1 || msg->ancount != 0 || msg->nscount != 0 || msg->arcount != (c.edns > 0 ? 1u : 0u)) return vp::fail("query:counts-differ");
    if (wantName != msg->query->name) return vp::fail("query:name-differs", vp::esc(msg->query->name) + " want " + vp::esc(wantName));
    if (msg->query->qtype != wantType || msg->query->qclass != 1) return vp::fail("query:type-or-class-differs");
    // the caller's copy of the question must match what a response to this query will carry
    if (rfc1035QueryCompare(&q, msg->query) != 0) return vp::fail("query:caller-copy-does-not-match-decoded-question");
    // the whole datagram is well-formed for an independent decoder, including the OPT record
    const RefMsg ref = refDecode(wire);
    if (!ref.questionOk || ref.qname != wantName) return vp::fail("query:reference-decoder-disagrees", ref.why);
    size_t off = 12 + (wantName.empty() ? 1 : wantName.size() + 2) + 4;
    if (c.edns > 0) {
        if (off + 11 != wire.size()) return vp::fail("query:opt-record-size");
        const unsigned cls = u16(wire, off + 3);
        if (wire[off] != 0 || u16(wire, off + 1) != 41 || u16(wire, off + 9) != 0) return vp::fail("query:opt-record-malformed");
        if (cls != std::min<long long>(c.edns, SQUID_UDP_SO_RCVBUF - 1)) return vp::fail("query:opt-udp-size-differs", std::to_string(cls));
    } else if (off != wire.size()) {
        return vp::fail("query:trailing-octets");
    }
    if (wantName.size() > 60 || c.edns > 0) ctx.nontrivial();
    return vp::pass();
}

#ifdef VP_FUZZ
static Case fuzzCase(FuzzedDataProvider &fdp)
{
    Case c;
    c.bytes = fdp.ConsumeRemainingBytesAsString();
    // most inputs should get past the QDCOUNT == 1 gate
    if (c.bytes.size() >= 12 && (static_cast<unsigned char>(c.bytes[0]) & 3)) { c.bytes[4] = 0; c.bytes[5] = 1; }
    // the decoder allocates ANCOUNT records up front (18 MB for 65535): keep most counts below 256
    if (c.bytes.size() >= 12 && (static_cast<unsigned char>(c.bytes[1]) & 15)) c.bytes[6] = 0;
    c.note = "fuzz mutated";
    return c;
}
#else
static std::function<Case(FuzzedDataProvider &)> fuzzCase = nullptr;
#endif

static void registerAll()
{
    sigaction(SIGSEGV, nullptr, &AsanSegvHandler);
    vp::add<Case>("decode", gen(), checkDecode, show, parse, 4.0, fuzzCase);
    vp::add<QCase>("build_query", genQ(), checkQuery, showQ, parseQ, 1.0);
}

VP_MAIN(registerAll)
