// C31 Percent-encoding round-trips (AnyP::Uri::Encode/Decode, rfc1738_do_escape/rfc1738_unescape).
// Domain : every byte string of length <= 2 (quick) / <= 3 (thorough) enumerated by index; random
//          strings up to 4 KB dense in '%', hex digits, reserved/unsafe characters and high bytes;
//          ignore-sets = the three sets Squid's callers pass to Uri::Encode.
// Oracle : written from the statement:
//          Decode(Encode(s,set)) == s (sets without '%'; for the path set, which contains '%'
//          because paths are stored already-encoded, only for s without '%');
//          Encode output consists of set members and %HEXHEX triplets only;
//          rfc1738_unescape(esc(s)) == s for NUL-free s and esc in {rfc1738_escape, rfc1738_escape_part};
//          rfc1738_escape_unescaped leaves existing %XX alone by design: strict round trip for s
//          without '%', unescape(esc(s)) == unescape(s) when every '%' of s starts a %XX triplet;
//          unescape output is never longer than its input and never touches the bytes behind the
//          terminating NUL (exact-size heap block under ASan + canary-guarded buffer).
#include "squid.h"
#include "anyp/Uri.h"
#include "base/CharacterSet.h"
#include "rfc1738.h"
#include "sbuf/SBuf.h"

#include "verif_pbt.h"

#include <optional>

// ------------------------------------------------------------------ the ignore-sets real callers use

enum { kSetUnreserved, kSetUserInfo, kSetPathQuery, kSets };
static const char *const kSetNames[kSets] = {"rfc3986-unreserved", "userinfo-without-percent", "path-and-query"};

static const CharacterSet &ignoreSet(const int k)
{
    // errorpage.cc: CharacterSet::RFC3986_UNRESERVED()
    // Uri::absolute(): userinfo = unreserved / sub-delims / ":" (pct-encoded's '%' removed by the caller)
    // Uri::absolutePath(): pchar / "/" / "?" including '%' (the stored path is already encoded)
    static const CharacterSet userInfo = CharacterSet("userinfo-reserved", ":-._~!$&'()*+,;=") + CharacterSet::ALPHA + CharacterSet::DIGIT;
    static const CharacterSet pathQuery = CharacterSet("path-and-query", "/:@-._~%!$&'()*+,;=?") + CharacterSet::ALPHA + CharacterSet::DIGIT;
    if (k == kSetUserInfo) return userInfo;
    if (k == kSetPathQuery) return pathQuery;
    return CharacterSet::RFC3986_UNRESERVED();
}

static bool isHex(const unsigned char c) { return (c >= '0' && c <= '9') || (c >= 'a' && c <= 'f') || (c >= 'A' && c <= 'F'); }
static int hexVal(const unsigned char c) { return c <= '9' ? c - '0' : (c | 0x20) - 'a' + 10; }

static std::string toStd(const SBuf &b) { return std::string(b.rawContent(), b.length()); }

/// Uri::Encode/Decode obligations for one (string, set) pair
static vp::Verdict judgeUri(const std::string &s, const int k, vp::Ctx *ctx)
{
    const CharacterSet &set = ignoreSet(k);
    const bool setHasPercent = set['%'];
    const SBuf in(s.data(), s.size());
    const std::string enc = toStd(AnyP::Uri::Encode(in, set));

    // alphabet: set members and well-formed triplets only
    for (size_t i = 0; i < enc.size(); ++i) {
        const unsigned char c = enc[i];
        if (c == '%' && i + 2 < enc.size() && isHex(enc[i + 1]) && isHex(enc[i + 2])) { i += 2; continue; }
        if (c == '%' && !setHasPercent)
            return vp::fail("uri:encode-emits-malformed-triplet", std::string(kSetNames[k]) + " input " + vp::esc(s) + " encoded " + vp::esc(enc));
        if (!set[c])
            return vp::fail("uri:encode-leaves-unlisted-byte-raw", std::string(kSetNames[k]) + " input " + vp::esc(s) + " encoded " + vp::esc(enc));
    }

    if (setHasPercent && s.find('%') != std::string::npos) {
        // by design not reversible: the caller's input is already percent-encoded
        if (ctx) ctx->excluded("path set (contains '%') applied to a string containing '%': round trip not required");
        return vp::pass();
    }
    const auto dec = AnyP::Uri::Decode(SBuf(enc.data(), enc.size()));
    if (!dec)
        return vp::fail("uri:decode-rejects-encoder-output", std::string(kSetNames[k]) + " input " + vp::esc(s) + " encoded " + vp::esc(enc));
    if (toStd(*dec) != s)
        return vp::fail("uri:roundtrip-mismatch", std::string(kSetNames[k]) + " input " + vp::esc(s) + " encoded " + vp::esc(enc) + " decoded " + vp::esc(toStd(*dec)));
    return vp::pass();
}

// ------------------------------------------------------------------ rfc1738

enum { kEscape, kEscapePart, kEscapeUnescaped, kVariants };
static const char *const kVariantNames[kVariants] = {"rfc1738_escape", "rfc1738_escape_part", "rfc1738_escape_unescaped"};

static const char *doEscape(const int v, const char *s)
{
    if (v == kEscape) return rfc1738_escape(s);
    if (v == kEscapePart) return rfc1738_escape_part(s);
    return rfc1738_escape_unescaped(s);
}

struct Unescaped {
    bool ok = true;
    std::string sig, detail;
    std::string out;
};

/// runs rfc1738_unescape twice: in an exact-size heap block (ASan red zone right behind the NUL)
/// and in a canary-filled buffer; checks the two agree, length <= input, bytes behind the input untouched
static Unescaped safeUnescape(const std::string &in)
{
    Unescaped r;
    const size_t n = in.size();
    char *exact = static_cast<char *>(malloc(n + 1));
    memcpy(exact, in.data(), n);
    exact[n] = '\0';
    rfc1738_unescape(exact);
    const size_t outLen = strnlen(exact, n + 1);
    if (outLen > n) { // cannot really happen without an ASan report, kept for completeness
        free(exact);
        r.ok = false; r.sig = "unescape:output-longer-than-input";
        return r;
    }
    r.out.assign(exact, outLen);
    free(exact);

    const size_t guard = 16;
    std::string buf(n + 1 + guard, '\xA5');
    memcpy(&buf[0], in.data(), n);
    buf[n] = '\0';
    rfc1738_unescape(&buf[0]);
    for (size_t i = n + 1; i < buf.size(); ++i) {
        if (buf[i] != '\xA5') { r.ok = false; r.sig = "unescape:wrote-behind-input"; r.detail = "input " + vp::esc(in); return r; }
    }
    if (strnlen(buf.data(), n + 1) != outLen || memcmp(buf.data(), r.out.data(), outLen) != 0) {
        r.ok = false; r.sig = "unescape:result-depends-on-buffer"; r.detail = "input " + vp::esc(in);
    }
    return r;
}

/// every '%' of s starts a %XX triplet with a non-zero value (what "already escaped" means)
static bool percentWellFormed(const std::string &s)
{
    for (size_t i = 0; i < s.size(); ++i) {
        if (s[i] != '%') continue;
        if (i + 2 >= s.size()) return false;
        if (!isHex(s[i + 1]) || !isHex(s[i + 2])) return false;
        if (hexVal(s[i + 1]) == 0 && hexVal(s[i + 2]) == 0) return false;
        i += 2;
    }
    return true;
}

static vp::Verdict judgeRfc1738(const std::string &s, const int v, vp::Ctx *ctx)
{
    // precondition of every caller: a C string
    if (s.find('\0') != std::string::npos) { if (ctx) ctx->excluded("string contains NUL (not a C string)"); return vp::pass(); }
    const std::string esc = doEscape(v, s.c_str());
    if (esc.size() > s.size() * 3)
        return vp::fail("rfc1738:escape-output-too-long", std::string(kVariantNames[v]) + " input " + vp::esc(s));
    const Unescaped back = safeUnescape(esc);
    if (!back.ok) return vp::fail(back.sig, back.detail);
    const bool hasPercent = s.find('%') != std::string::npos;
    if (v != kEscapeUnescaped || !hasPercent) {
        if (back.out != s)
            return vp::fail("rfc1738:roundtrip-mismatch", std::string(kVariantNames[v]) + " input " + vp::esc(s) + " escaped " + vp::esc(esc) + " unescaped " + vp::esc(back.out));
        return vp::pass();
    }
    // rfc1738_escape_unescaped on a string with '%'
    if (!percentWellFormed(s)) {
        if (ctx) ctx->excluded("rfc1738_escape_unescaped on a stray '%' (not followed by a non-zero %XX): left open");
        return vp::pass();
    }
    const Unescaped direct = safeUnescape(s);
    if (!direct.ok) return vp::fail(direct.sig, direct.detail);
    if (back.out != direct.out)
        return vp::fail("rfc1738:escape_unescaped-changes-meaning", "input " + vp::esc(s) + " escaped " + vp::esc(esc) + " unescaped " + vp::esc(back.out) + " direct " + vp::esc(direct.out));
    return vp::pass();
}

static vp::Verdict judgeUnescapeAny(const std::string &s, vp::Ctx *ctx)
{
    if (s.find('\0') != std::string::npos) { if (ctx) ctx->excluded("string contains NUL (not a C string)"); return vp::pass(); }
    const Unescaped u = safeUnescape(s);
    if (!u.ok) return vp::fail(u.sig, u.detail);
    if (s.find('%') == std::string::npos && u.out != s)
        return vp::fail("unescape:changes-string-without-percent", "input " + vp::esc(s) + " output " + vp::esc(u.out));
    return vp::pass();
}

/// everything the statement says about one string
static vp::Verdict judgeAll(const std::string &s)
{
    for (int k = 0; k < kSets; ++k) { const auto v = judgeUri(s, k, nullptr); if (!v.ok) return v; }
    for (int v = 0; v < kVariants; ++v) { const auto r = judgeRfc1738(s, v, nullptr); if (!r.ok) return r; }
    return judgeUnescapeAny(s, nullptr);
}

// ------------------------------------------------------------------ random strings

static const std::string kSpecial = "%%%%%%0123456789abcdefABCDEFgG <>\"#{}|\\^~[]`';/?:@=&-._!$*+,()\x7f\t\n\r";

/// one more character of the given flavour from a source of small integers
template <class Next>
static void appendSome(std::string &s, const int flavour, Next &&next)
{
    const int k = next(10);
    if (flavour == 0 && k < 9) { s += static_cast<char>(next(256)); return; }
    if (k < 4) s += kSpecial[next(static_cast<int>(kSpecial.size()))];
    else if (k < 6) s += static_cast<char>(0x80 + next(0x80));
    else if (k == 6) s += static_cast<char>(next(0x21));
    else if (k == 7) { // a triplet, sometimes broken
        static const char hex[] = "0123456789abcdefABCDEF";
        s += '%';
        s += hex[next(22)];
        if (next(6)) s += hex[next(22)];
    } else s += static_cast<char>('a' + next(26));
}

/// Short strings (<= 12 bytes, 60% of cases) are drawn byte by byte from rapidcheck (fully shrinkable).
/// Longer ones are a deterministic expansion (splitmix64) of a rapidcheck-drawn 64-bit word, length and
/// flavour: drawing thousands of bytes one by one costs milliseconds per case.  The case file stores
/// the resulting string, so replay does not depend on the expansion.
static rc::Gen<std::string> genString()
{
    using namespace rc;
    return gen::exec([]() {
        const int lenKind = *vp::range<int>(0, 19);
        const int flavour = *vp::range<int>(0, 3);
        std::string s;
        if (lenKind < 12) {
            const size_t n = *vp::range<size_t>(0, 12);
            while (s.size() < n) appendSome(s, flavour, [](int m) { return *vp::range<int>(0, m - 1); });
            if (s.size() > n) s.resize(n);
            return s;
        }
        const size_t n = lenKind < 18 ? *vp::range<size_t>(0, 80) : lenKind == 18 ? *vp::range<size_t>(0, 600) : *vp::range<size_t>(0, 4096);
        uint64_t state = *gen::arbitrary<uint64_t>();
        s.reserve(n + 3);
        auto next = [&state](int m) {
            state += 0x9E3779B97F4A7C15ULL;
            uint64_t z = state;
            z = (z ^ (z >> 30)) * 0xBF58476D1CE4E5B9ULL;
            z = (z ^ (z >> 27)) * 0x94D049BB133111EBULL;
            z ^= z >> 31;
            return static_cast<int>(z % static_cast<uint64_t>(m));
        };
        while (s.size() < n) appendSome(s, flavour, next);
        if (s.size() > n) s.resize(n);
        return s;
    });
}

static void classify(const std::string &s, vp::Ctx &ctx)
{
    bool pct = false, high = false, nul = false;
    for (const unsigned char c : s) { pct |= c == '%'; high |= c >= 0x80; nul |= c == 0; }
    if (pct) ctx.label("has-percent");
    if (high) ctx.label("has-high-byte");
    if (nul) ctx.label("has-NUL");
    if (s.size() > 256) ctx.label("longer-than-256");
    if (pct || high) ctx.nontrivial();
}

struct UriCase { std::string s; int set = 0; };
static std::string showUri(const UriCase &c) { return vp::Writer().s("s", c.s).s("set", kSetNames[c.set % kSets]).str(); }
static UriCase parseUri(const std::string &t)
{
    vp::Reader r(t);
    UriCase c;
    c.s = r.s("s");
    const std::string n = r.s("set");
    for (int k = 0; k < kSets; ++k) if (n == kSetNames[k]) c.set = k;
    return c;
}
static vp::Verdict checkUri(const UriCase &c, vp::Ctx &ctx)
{
    classify(c.s, ctx);
    ctx.label(std::string("set:") + kSetNames[c.set]);
    return judgeUri(c.s, c.set, &ctx);
}

struct EscCase { std::string s; int variant = 0; };
static std::string showEsc(const EscCase &c) { return vp::Writer().s("s", c.s).s("variant", kVariantNames[c.variant % kVariants]).str(); }
static EscCase parseEsc(const std::string &t)
{
    vp::Reader r(t);
    EscCase c;
    c.s = r.s("s");
    const std::string n = r.s("variant");
    for (int k = 0; k < kVariants; ++k) if (n == kVariantNames[k]) c.variant = k;
    return c;
}
static vp::Verdict checkEsc(const EscCase &c, vp::Ctx &ctx)
{
    classify(c.s, ctx);
    ctx.label(std::string("variant:") + kVariantNames[c.variant]);
    if (c.variant == kEscapeUnescaped && c.s.find('%') != std::string::npos && c.s.find('\0') == std::string::npos && percentWellFormed(c.s))
        ctx.label("escape_unescaped-on-already-escaped-input");
    return judgeRfc1738(c.s, c.variant, &ctx);
}

struct StrCase { std::string s; };
static std::string showStr(const StrCase &c) { return vp::Writer().s("s", c.s).str(); }
static StrCase parseStr(const std::string &t) { vp::Reader r(t); StrCase c; c.s = r.s("s"); return c; }
static vp::Verdict checkUnescape(const StrCase &c, vp::Ctx &ctx)
{
    classify(c.s, ctx);
    const size_t n = c.s.size();
    if (n && c.s[n - 1] == '%') ctx.label("percent-at-end");
    if (n > 1 && c.s[n - 2] == '%') ctx.label("percent-before-last-byte");
    return judgeUnescapeAny(c.s, &ctx);
}

// ------------------------------------------------------------------ exhaustive enumeration by index

/// Unit u of the length<=2 enumeration: u in 0..255 = the 256 two-byte strings starting with byte u;
/// u == 256 = the empty string and the 256 one-byte strings.
/// Unit u of the length-3 enumeration: the 65536 three-byte strings starting with byte u; the 256
/// units are split over 8 sub-properties (first byte 32p..32p+31) so that the thorough tier can sweep
/// them in parallel without redundancy.
struct BlockCase { int unit = 0; };
static std::string showBlock(const BlockCase &c) { return vp::Writer().i("unit", c.unit).str(); }
static BlockCase parseBlock(const std::string &t) { vp::Reader r(t); BlockCase c; c.unit = static_cast<int>(r.i("unit")); return c; }

struct Enumerator {
    uint64_t total = 0;
    bool started = false;
    uint64_t next = 0, produced = 0;
};
static Enumerator gEnum2{257};
static Enumerator gEnum3[8] = {{32}, {32}, {32}, {32}, {32}, {32}, {32}, {32}};

static rc::Gen<BlockCase> genBlock(Enumerator *e, const bool seededStart)
{
    using namespace rc;
    return gen::exec([e, seededStart]() {
        if (!e->started) {
            e->started = true;
            e->next = seededStart ? *vp::range<uint64_t>(0, e->total - 1) : 0;
        }
        BlockCase c;
        c.unit = static_cast<int>(e->next);
        e->next = (e->next + 1) % e->total;
        ++e->produced;
        return c;
    });
}

static vp::Verdict checkLen2(const BlockCase &c, vp::Ctx &ctx)
{
    if (c.unit < 0 || c.unit > 256) { ctx.excluded("malformed replay"); return vp::pass(); }
    uint64_t n = 0;
    std::string s;
    if (c.unit == 256) {
        const auto v0 = judgeAll(s);
        if (!v0.ok) return v0;
        ++n;
        s.assign(1, '\0');
        for (int b = 0; b < 256; ++b) {
            s[0] = static_cast<char>(b);
            const auto v = judgeAll(s);
            if (!v.ok) return v;
            ++n;
        }
    } else {
        s.assign(2, static_cast<char>(c.unit));
        for (int b = 0; b < 256; ++b) {
            s[1] = static_cast<char>(b);
            const auto v = judgeAll(s);
            if (!v.ok) return v;
            ++n;
        }
    }
    ctx.labels["strings-evaluated"] += n;
    if (gEnum2.started && gEnum2.produced % gEnum2.total == 0) ctx.label("complete-enumeration-finished");
    ctx.nontrivial();
    return vp::pass();
}

static vp::Verdict checkLen3(const int part, const BlockCase &c, vp::Ctx &ctx)
{
    if (c.unit < 32 * part || c.unit > 32 * part + 31) { ctx.excluded("malformed replay"); return vp::pass(); }
    std::string s(3, static_cast<char>(c.unit));
    for (int b = 0; b < 256; ++b) {
        s[1] = static_cast<char>(b);
        for (int d = 0; d < 256; ++d) {
            s[2] = static_cast<char>(d);
            const auto v = judgeAll(s);
            if (!v.ok) return v;
        }
    }
    ctx.labels["strings-evaluated"] += 65536;
    if (gEnum3[part].started && gEnum3[part].produced % gEnum3[part].total == 0) ctx.label("complete-enumeration-finished");
    ctx.nontrivial();
    return vp::pass();
}

static void registerAll()
{
    using namespace rc;
    vp::add<UriCase>("uri_encode_decode", gen::exec([]() { UriCase c; c.set = *vp::range<int>(0, kSets - 1); c.s = *genString(); return c; }),
                     checkUri, showUri, parseUri, 3.0);
    vp::add<EscCase>("rfc1738_escape_unescape", gen::exec([]() { EscCase c; c.variant = *vp::range<int>(0, kVariants - 1); c.s = *genString(); return c; }),
                     checkEsc, showEsc, parseEsc, 3.0);
    vp::add<StrCase>("rfc1738_unescape_bounds", gen::exec([]() { StrCase c; c.s = *genString(); return c; }),
                     checkUnescape, showStr, parseStr, 1.0);
    vp::add<BlockCase>("exhaustive_len_le2", genBlock(&gEnum2, false), checkLen2, showBlock, parseBlock, 0.01);
    for (int part = 0; part < 8; ++part) {
        vp::add<BlockCase>("exhaustive_len3_part" + std::to_string(part),
                           gen::map(genBlock(&gEnum3[part], true), [part](BlockCase c) { c.unit += 32 * part; return c; }),
                           [part](const BlockCase &c, vp::Ctx &ctx) { return checkLen3(part, c, ctx); }, showBlock, parseBlock, 0.0002);
    }
}

VP_MAIN(registerAll)
