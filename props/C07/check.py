"""C07 Non-idempotent requests are not resent after reaching the origin."""
import socket
import time

from hypothesis import strategies as st

from vlib.e2e import client, dnsstub, origin as originmod
from vlib.e2e.env import ProxyEnv
from vlib.e2e_runner import Result

FAULTS = ["refuse", "close-on-accept", "close-after-head", "close-after-request", "rst-mid-response", "fin-mid-response", "status-503", "ok"]
NON_IDEMPOTENT = ("POST", "PATCH", "FROB")


def strategy(tp):
    return st.fixed_dictionaries({
        "method": st.sampled_from(["POST", "POST", "PATCH", "FROB", "GET", "PUT", "DELETE"]),
        "body": st.sampled_from([None, 0, 10, 5000]),
        "chunked": st.booleans(),
        "faults": st.lists(st.sampled_from(FAULTS), min_size=1, max_size=3),
        "prewarm": st.booleans(),
        "client_segments": st.lists(st.integers(1, 200), min_size=0, max_size=3),
    })


class Env(ProxyEnv):
    pass


def setup(ctx):
    w = ctx.worker
    dns_addr = "127.0.53.%d" % (10 + w)
    dns = dnsstub.DnsStub(dns_addr)
    # odd workers let non-retriable requests reuse idle persistent connections (a documented directive), so the
    # "pconn race" path -- zero-sized reply on a reused connection -- is exercised for non-idempotent methods too
    reuse = "server_pconn_for_nonretriable allow all\n" if w % 2 == 1 else ""
    env = Env(ctx, conf="connect_timeout 3 seconds\nforward_max_tries 6\n" + reuse, cache_mem="0 MB", dns=dns_addr)
    env.reuse = bool(reuse)
    env.dns = dns
    # three origin stubs on distinct loopback addresses, same port
    env.origins = []
    for attempt in range(20):
        first = originmod.Origin(env.clock, host="127.0.2.%d" % (10 + w * 4))
        others = []
        try:
            for i in (1, 2):
                others.append(originmod.Origin(env.clock, host="127.0.2.%d" % (10 + w * 4 + i), port=first.port))
        except OSError:
            first.stop()
            for o in others:
                o.stop()
            continue
        env.origins = [first] + others
        break
    env.dead_addr = "127.0.2.250"   # nobody listens there: connection refused
    env.oport = env.origins[0].port
    for o in env.origins:
        o.close_next = 0
        def hook(cid, o=o):
            if o.close_next > 0:
                o.close_next -= 1
                return "close"
            return None
        o.accept_hook = hook
    return env


def teardown(env):
    env.dns.stop()
    for o in env.origins:
        o.stop()
    env.close()


def execute(env, sc):
    r = Result()
    ns = env.ns()
    name = "%s.c07.test" % ns
    path = "/" + ns
    warm = "/" + ns + "-warm"
    addrs = []
    for i, f in enumerate(sc["faults"]):
        o = env.origins[i]
        o.close_next = 0
        if f == "refuse":
            addrs.append(env.dead_addr)
            continue
        addrs.append(o.host)
        if f == "close-on-accept":
            o.close_next = 1
            beh = {"status": 200, "body_b64": ""}
        elif f == "close-after-head":
            beh = {"read_body": False, "no_response": True}
        elif f == "close-after-request":
            beh = {"read_body": True, "no_response": True}
        elif f == "rst-mid-response":
            beh = {"status": 200, "body_tag": path, "body_len": 100, "abort_after": 25, "abort_rst": True}
        elif f == "fin-mid-response":
            beh = {"status": 200, "body_tag": path, "body_len": 100, "abort_after": 12}
        elif f == "status-503":
            beh = {"status": 503, "reason": "Unavailable", "body_b64": "", "close": True}
        else:
            beh = {"status": 200, "body_tag": path, "body_len": 30}
        # later arrivals on the same stub (a forbidden resend) get a plain 200 so the history is visible
        o.script(path, [beh, {"status": 200, "body_b64": ""}])
        o.script(warm, {"status": 200, "body_b64": "", "headers": [["Cache-Control", "no-store"]]})
    env.dns.set(name, addrs)
    url = "http://%s:%d%s" % (name, env.oport, path)

    def send(method, target, body, keep):
        lines = ["%s %s HTTP/1.1" % (method, target), "Host: %s:%d" % (name, env.oport)]
        data = b""
        if body is not None:
            payload = b"b" * body
            if sc["chunked"] and body:
                lines.append("Transfer-Encoding: chunked")
                data = b"%x\r\n%s\r\n0\r\n\r\n" % (len(payload), payload)
            else:
                lines.append("Content-Length: %d" % body)
                data = payload
        if not keep:
            lines.append("Connection: close")
        return ("\r\n".join(lines) + "\r\n\r\n").encode() + data

    c = client.Conn(env.port, timeout=20)
    try:
        prewarmed = False
        if sc["prewarm"] and sc["faults"][0] not in ("refuse", "close-on-accept"):
            c.send(send("GET", "http://%s:%d%s" % (name, env.oport, warm), None, True))
            mw = c.read_response(b"GET", timeout=15)
            prewarmed = mw is not None and mw.status == 200
            if prewarmed:
                r.label("prewarmed-pconn" + ("-reusable-for-nonretriable" if env.reuse else ""))
        body = sc["body"]
        if sc["method"] in ("GET", "DELETE") and body is not None:
            body = None
        c.send(send(sc["method"], url, body, False), sc["client_segments"])
        m = c.read_response(sc["method"].encode(), timeout=20)
    finally:
        c.close()
    if m is None or getattr(m, "timed_out", False):
        r.inconclusive = "client timed out"
    time.sleep(0.05)
    arrivals = []
    for i, o in enumerate(env.origins):
        for a in o.arrivals_for(path):
            arrivals.append((i, a.conn_id))
    n = len(arrivals)
    after_send_fault = any(f in ("close-after-head", "close-after-request", "rst-mid-response", "fin-mid-response") for f in sc["faults"][:1]) or \
        (n >= 1 and any(f in ("close-after-head", "close-after-request", "rst-mid-response", "fin-mid-response") for f in sc["faults"]))
    r.label("arrivals-%d" % min(n, 3))
    r.label("method-" + sc["method"])
    if sc["method"] in NON_IDEMPOTENT:
        if after_send_fault:
            r.nontrivial = True
            r.label("non-idempotent-with-fault-after-send")
        if n > 1:
            r.fail("non-idempotent-request-resent", "%s reached origin stubs %d times (stub index, connection): %s; faults %s prewarm %s" % (
                sc["method"], n, arrivals, sc["faults"], sc["prewarm"]))
    elif n > 1:
        r.label("idempotent-retried")
    env.health(r)
    return r
