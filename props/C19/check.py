"""C19 SMP workers share cache entries consistently.

Each harness worker keeps one SMP proxy instance (started on first use): 3 squid workers, a shared memory cache
(objects up to 64 KB = two shared pages) and a rock cache_dir with a disker (larger objects are shared only through
rock).  Every squid worker has its own http_port (`if ${process_number} = i`), so the scenario chooses the worker
per request; a scenario uses the first 2 or all 3 workers.  A scenario (fresh URL namespace) is a history of GET / forced refresh / PURGE / probe /
race(refresh through one worker while another reads) operations on a few URLs.
Oracle: (a) every complete 200 equals one origin version of that URL; (b) once a store through worker i is
confirmed (only-if-cached on i returns its exact bytes), only-if-cached on every other worker returns the same
bytes or a miss, and a later cache hit on any worker returns those bytes; (c) after an acknowledged PURGE no
worker answers only-if-cached with 200; (d) after a race has finished, two probe rounds never show two workers
holding different versions.
"""
import threading
import time

from hypothesis import strategies as st

from vlib.e2e import diskstore as ds
from vlib.e2e_runner import Result

ROCK = "rock {run}/rock 16 slot-size=4096 max-size=1048576"
SQUID_WORKERS = 3
# objects up to 64 KB (two 32 KB shared-memory pages) are shared through the memory cache, larger ones only through rock
# hopeless_kid_revival_delay: on a loaded machine a squid worker can lose the 7 s race with the starting disker several
# times in a row; the master must keep restarting it instead of giving it up for an hour
CONF = "maximum_object_size_in_memory 64 KB\nhopeless_kid_revival_delay 3 seconds\n"
SIZES = st.one_of(st.sampled_from([40000, 100, 4000, 4200, 20000, 32000, 32768, 33000, 66000, 150000]), st.integers(0, 70000))


def strategy(tp):
    op = st.fixed_dictionaries({
        "op": st.sampled_from(["get", "probe", "refresh", "get", "purge", "race", "refresh", "probe"]),
        "u": st.integers(0, 2),
        "w": st.integers(0, 2),
        "w2": st.integers(0, 2),
        "size": SIZES,
        "delay_ms": st.sampled_from([0, 1, 5, 20, 60]),
    })
    return st.fixed_dictionaries({
        "nw": st.sampled_from([3, 2]),
        "ops": st.lists(op, min_size=4, max_size=16),
    })


def setup(ctx):
    env = ds.DiskEnv(ctx)
    env.instances = {}
    return env


def teardown(env):
    env.close()


def _instance(env, nw=0):
    sq = env.instances.get(nw)
    if sq is not None and sq.alive():
        return sq
    if sq is not None:
        env.discard(sq)
        env.instances.pop(nw, None)
    sq = env.new_squid(ROCK, conf=CONF, cache_mem="16 MB", workers=SQUID_WORKERS, ports=SQUID_WORKERS, timeout=420)
    if not ds.wait_finished_rebuilding(sq, 120):
        env.discard(sq)
        return None
    # every worker must be able to serve (a worker that lost the start-up race with the disker is restarted by the master)
    deadline = time.time() + 120
    for p in sq.ports:
        while time.time() < deadline:
            m = ds.oic(env, p, "/warmup", timeout=5)
            if ds.judged(m):
                break
            time.sleep(0.2)
    env.instances[nw] = sq
    return sq


def _health(env, sq, nw, r):
    log = sq.cache_log()
    probs = []
    for sig, detail in sq.health_problems():
        # a squid worker that waited longer than its fixed timeout for a slowly starting disker exits with this FATAL and
        # is restarted by the master: an artefact of a loaded machine, not a property of the code under test
        if sig.startswith("fatal:Rock_cache_dir") and "communication channel establishment timeout" in log:
            continue
        probs.append((sig, detail))
    for sig, detail in probs:
        r.fail("memory-safety/liveness:" + sig, detail)
    if probs or not sq.alive():
        env.discard(sq)
        env.instances.pop(nw, None)
    return not probs


def execute(env, sc):
    r = Result()
    nw = sc["nw"]
    try:
        sq = _instance(env)
    except Exception as e:
        sq = None
        ds.trace("C19 instance start failed: %s" % str(e)[:300])
    if sq is None:
        r.inconclusive = "SMP instance not ready in time"
        return r
    r.label("workers:%d" % nw)
    try:
        _run(env, sc, sq, r, nw)
    except OSError:
        r.inconclusive = "socket error"
    _health(env, sq, 0, r)
    return r


def _classify(content, u, body):
    """-> version index whose complete bytes equal body, or None"""
    for k in content.all_versions(u):
        if content.body(u, k) == body:
            return k
    return None


def _run(env, sc, sq, r, nw):
    ports = sq.ports
    content = ds.Content(env, env.ns())
    state = {}      # u -> {"cur": confirmed latest version or None, "purged": bool, "fetcher": worker}
    checks = 0
    cross_hits_big = 0

    def judge_complete(u, m, what):
        """(a): a complete 200 must be one origin version.  -> version or None"""
        if not ds.judged(m):
            r.inconclusive = "request not answered in time"
            return None
        if m.status != 200:
            return None
        if not m.complete:
            if any(content.body(u, k).startswith(m.body) for k in content.all_versions(u)):
                r.label("truncated-response-with-correct-prefix")
            else:
                r.fail("truncated-response-with-foreign-bytes", "%s: u%d %d bytes" % (what, u, len(m.body)))
            return None
        k = _classify(content, u, m.body)
        if k is None:
            r.fail("complete-response-is-no-origin-version", "%s: u%d: complete 200 with %d bytes equals none of the versions %s" % (
                what, u, len(m.body), [(v, content.served[content.path(u)][v]) for v in content.all_versions(u)]))
        return k

    def probe_all(u, what):
        """only-if-cached on every worker -> {worker: version or None(miss/unjudged)}"""
        out = {}
        for w in range(SQUID_WORKERS):
            m = ds.oic(env, ports[w], content.path(u), timeout=10)
            out[w] = judge_complete(u, m, "%s: only-if-cached via worker %d" % (what, w)) if ds.judged(m) and m.status == 200 else None
            if ds.judged(m) and m.status == 200 and out[w] is None:
                out[w] = -1     # judged as a violation/truncation already
        return out

    for i, op in enumerate(sc["ops"]):
        if r.violations:
            break
        u = op["u"]
        w = op["w"] % nw
        path = content.path(u)
        s = state.setdefault(u, {"cur": None, "purged": False, "fetcher": None})
        kind = op["op"]
        if kind in ("get", "refresh"):
            content.set_next(u, op["size"])
            before = content.arrivals(u)
            hdrs = [("Cache-Control", "no-cache")] if kind == "refresh" else []
            m = ds.get(env, ports[w], path, hdrs, timeout=15)
            k = judge_complete(u, m, "op %d %s via worker %d" % (i, kind, w))
            after = content.arrivals(u)
            checks += 1
            if k is None:
                s.update(cur=None)
                continue
            if after == before:
                if s["purged"]:
                    r.fail("purged-entry-served", "op %d: GET via worker %d was answered from the cache (version %d) although the URL's PURGE had been acknowledged" % (i, w, k))
                # a cache hit: must be the latest confirmed version
                if s["cur"] is not None and k != s["cur"]:
                    r.fail("hit-differs-from-latest-confirmed-version", "op %d: GET via worker %d returned version %d; version %d had been confirmed through worker %s" % (
                        i, w, k, s["cur"], s["fetcher"]))
                if s["cur"] is not None and s["fetcher"] != w:
                    r.label("hit-on-other-worker")
                    if content.served[path][k] > 32768:
                        cross_hits_big += 1
                continue
            # went to the origin: version `after-1` is being/was stored through worker w
            ver = after - 1
            s.update(cur=None, purged=False, fetcher=w)
            if k != ver:
                continue
            c = ds.oic(env, ports[w], path, timeout=10)
            kc = judge_complete(u, c, "op %d: only-if-cached via the fetching worker %d" % (i, w)) if ds.judged(c) and c.status == 200 else None
            checks += 1
            if kc == ver and content.arrivals(u) == after:
                s["cur"] = ver
                r.label("store-confirmed")
                for x in range(SQUID_WORKERS):
                    if x == w:
                        continue
                    o = ds.oic(env, ports[x], path, timeout=10)
                    checks += 1
                    if not ds.judged(o) or o.status != 200:
                        r.label("miss-on-other-worker")
                        continue
                    ko = judge_complete(u, o, "op %d: only-if-cached via worker %d after a store through worker %d" % (i, x, w))
                    if ko is None:
                        continue
                    if ko != ver:
                        r.fail("other-worker-serves-different-version", "op %d: version %d confirmed through worker %d; only-if-cached via worker %d returned version %d" % (
                            i, ver, w, x, ko))
                    else:
                        r.label("hit-on-other-worker")
                        if content.served[path][ver] > 32768:
                            cross_hits_big += 1
        elif kind == "purge":
            m = ds.get(env, ports[w], path, method="PURGE", timeout=10)
            if not ds.judged(m):
                r.inconclusive = "PURGE not answered"
                return
            if m.status == 200:
                s.update(cur=None, purged=True, fetcher=None)
                r.label("purge-acknowledged")
                for x in range(SQUID_WORKERS):
                    o = ds.oic(env, ports[x], path, timeout=10)
                    checks += 1
                    if ds.judged(o) and o.status == 200:
                        ko = _classify(content, u, o.body) if o.complete else None
                        r.fail("purged-entry-served", "op %d: PURGE through worker %d answered 200; only-if-cached via worker %d still answers 200 (version %s)" % (i, w, x, ko))
            else:
                s.update(cur=None)
        elif kind == "probe":
            res = probe_all(u, "op %d probe" % i)
            checks += SQUID_WORKERS
            vs = set(v for v in res.values() if v is not None and v >= 0)
            if s["cur"] is not None:
                for x, v in res.items():
                    if v is not None and v >= 0 and v != s["cur"]:
                        r.fail("other-worker-serves-different-version", "op %d: version %d confirmed through worker %s; only-if-cached via worker %d returned version %d" % (
                            i, s["cur"], s["fetcher"], x, v))
                if any(v == s["cur"] and x != s["fetcher"] for x, v in res.items()):
                    r.label("hit-on-other-worker")
                    if content.served[path][s["cur"]] > 32768:
                        cross_hits_big += 1
            if s["purged"] and vs:
                r.fail("purged-entry-served", "op %d: only-if-cached answers 200 (versions %s) for a URL whose PURGE was acknowledged and which was not requested since" % (i, sorted(vs)))
        elif kind == "race":
            w2 = op["w2"] % nw
            n = op["size"]
            third = max(1, n // 3)
            content.set_next(u, n, extra={"segments": [200, third, third], "pause_ms": [5, 25, 25]})
            results = {}

            def writer():
                results["a"] = ds.get(env, ports[w], path, [("Cache-Control", "no-cache")], timeout=20)

            def reader():
                time.sleep(op["delay_ms"] / 1000.0)
                results["b"] = ds.get(env, ports[w2], path, timeout=20)
            ta, tb = threading.Thread(target=writer), threading.Thread(target=reader)
            ta.start()
            tb.start()
            ta.join(40)
            tb.join(40)
            if ta.is_alive() or tb.is_alive():
                r.inconclusive = "race requests did not finish in time"
                return
            judge_complete(u, results.get("a"), "op %d race: refresh via worker %d" % (i, w))
            judge_complete(u, results.get("b"), "op %d race: concurrent GET via worker %d" % (i, w2))
            checks += 2
            s.update(cur=None, purged=False, fetcher=None)
            content.set_next(u, n)
            r.label("race")
            # (d) after the race has finished the workers must not hold different versions
            time.sleep(0.05)
            first = probe_all(u, "op %d after race" % i)
            vs = set(v for v in first.values() if v is not None and v >= 0)
            if len(vs) > 1:
                time.sleep(0.3)
                second = probe_all(u, "op %d after race (2nd round)" % i)
                vs2 = set(v for v in second.values() if v is not None and v >= 0)
                if len(vs2) > 1:
                    r.fail("workers-hold-different-versions-after-quiescence", "op %d: only-if-cached per worker: %s then %s" % (i, first, second))
            checks += SQUID_WORKERS
    r.sub_evaluations = max(1, checks)
    if cross_hits_big:
        r.label("multi-page-hit-on-other-worker")
        r.nontrivial = True
