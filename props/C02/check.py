"""C02 Request bodies reach the origin byte-exactly with valid framing.

Generated: POST/PUT, body length from a boundary-dense set, Content-Length or chunked framing (chunk sizes, hex
case/leading zeros, extensions, trailers), client write segmentation and pauses, Expect: 100-continue (origin answers
100 or stays silent), client abort (FIN/close/RST) after k encoded body bytes, origin that reads normally, stalls before
reading, or answers before reading the body.

Oracle (from the statement, judged on the origin stub's own strict RFC 9112 parse of the upstream bytes):
  * upstream framing is valid: exactly one of Content-Length / "Transfer-Encoding: chunked", well-formed chunks;
  * whatever body bytes the origin received are a prefix of the client's body (never altered/reordered/spliced);
  * upstream message complete  =>  body equals the client's body exactly AND the client had sent its whole message;
  * (so: a client that stopped early never yields a complete upstream message);
  * at most one complete copy of the message is delivered.
An upstream message that stays incomplete although the client sent everything is allowed by the statement ("if Squid
stops relaying early the message is visibly incomplete") and only counted.  Waits that run out are inconclusive.
"""
import threading
import time

from hypothesis import strategies as st

from vlib.e2e import client, httpref
from vlib.e2e.env import ProxyEnv
from vlib.e2e_runner import Result

BOUNDARY_LENGTHS = [0, 1, 2, 3, 100, 4095, 4096, 4097, 8191, 8192, 8193, 16383, 16384, 16385, 32767, 32768, 32769, 65535, 65536, 65537,
                    131072, 262143, 262144, 262145, 524287, 524288, 524289, 1048575, 1048576, 1048577]
GRAMMAR_ANOMALIES = ("both-CL-and-TE", "multiple-CL-fields", "TE-not-exactly-chunked", "TE-without-final-chunked", "chunk-size-line-without-CR",
                     "chunk-data-LF-only", "invalid-CL", "CL-list", "obs-fold", "whitespace-before-colon", "bad-field-name", "field-line-without-colon")
CLIENT_DEADLINE = 15.0


def strategy(tp):
    max_len = int(tp.get("max_body", 1100000))
    small = st.integers(0, 3000)
    lengths = st.one_of(small, small, st.sampled_from([l for l in BOUNDARY_LENGTHS if l <= max_len]), st.integers(0, min(max_len, 70000)),
                        st.integers(0, max_len))
    seg = st.one_of(st.integers(1, 40), st.integers(1, 600), st.integers(1, 70000))
    abort = st.one_of(st.just(["none"]), st.just(["none"]), st.just(["none"]),
                      st.tuples(st.just("permille"), st.integers(0, 999)).map(list),
                      st.tuples(st.just("from_end"), st.integers(1, 12)).map(list),
                      st.tuples(st.just("abs"), st.integers(0, 400)).map(list))
    return st.fixed_dictionaries({
        "method": st.sampled_from(["POST", "POST", "PUT"]),
        "body_len": lengths,
        "framing": st.sampled_from(["length", "chunked", "chunked"]),
        "version": st.sampled_from(["1.1", "1.1", "1.1", "1.0"]),          # 1.0 only applies to Content-Length framing
        "chunks": st.lists(st.one_of(st.integers(1, 20), st.integers(1, 5000), st.sampled_from([4096, 16384, 65536, 70000])), min_size=0, max_size=6),
        "chunk_ext": st.lists(st.sampled_from(["", "", ";a", ";a=b", ";a=\"q\\\"x\"", ";foo=bar;baz"]), min_size=0, max_size=3),
        "hex_style": st.sampled_from(["lower", "lower", "upper", "zeros"]),
        "trailers": st.booleans(),
        "segments": st.lists(seg, min_size=0, max_size=10),
        "pauses": st.lists(st.sampled_from([0, 0, 0, 1, 3, 10]), min_size=0, max_size=10),
        "expect": st.sampled_from(["none", "none", "origin-100", "silent"]),
        "expect_wait_ms": st.sampled_from([0, 5, 30, 120]),
        "abort": abort,
        "abort_how": st.sampled_from(["fin", "close", "rst"]),
        "abort_sync": st.sampled_from([True, True, False]),   # True: stop only after the origin has seen the upstream request head
        "origin": st.sampled_from(["read", "read", "read", "stall", "early", "early-close", "slow-drain"]),
        # slow-drain: the origin consumes slower than the client produces, so a backlog builds up inside the proxy
        "slow_len": st.sampled_from([150000, 400000, 1000000, 2500000]),
        "stall_ms": st.sampled_from([5, 30, 150]),
        "resp_len": st.sampled_from([0, 10, 5000]),
    })


def setup(ctx):
    env = ProxyEnv(ctx, conf="read_timeout 30 seconds\nrequest_timeout 30 seconds\n", cache_mem="8 MB")
    # a second origin stub whose sockets have a tiny receive buffer: with "slow-drain" it really pushes back on the proxy
    from vlib.e2e.origin import Origin
    env.fast_origin = env.origin
    env.slow_origin = Origin(env.clock, rcvbuf=4096)
    return env


def teardown(env):
    env.origin = env.fast_origin
    env.slow_origin.stop()
    env.close()


def chunk_encode(body, sizes, exts, style, trailers):
    out = bytearray()
    pos = 0
    i = 0
    sizes = [s for s in (sizes or []) if s > 0]
    nchunks = 0
    while pos < len(body):
        sz = sizes[i % len(sizes)] if sizes else len(body) - pos
        sz = min(sz, len(body) - pos)
        hx = "%x" % sz
        if style == "upper":
            hx = hx.upper()
        elif style == "zeros":
            hx = "00" + hx
        ext = exts[i % len(exts)] if exts else ""
        out += (hx + ext + "\r\n").encode("latin-1") + body[pos:pos + sz] + b"\r\n"
        pos += sz
        i += 1
        nchunks += 1
    out += b"000\r\n" if style == "zeros" else b"0\r\n"
    if trailers:
        out += b"X-Trailer: t\r\n"
    out += b"\r\n"
    return bytes(out), nchunks


def _first_diff(a, b):
    n = min(len(a), len(b))
    return next((i for i in range(n) if a[i] != b[i]), n)


def _wait(pred, timeout):
    deadline = time.time() + timeout
    while time.time() < deadline:
        if pred():
            return True
        time.sleep(0.002)
    return pred()


def execute(env, sc):
    env.origin = env.slow_origin if sc["origin"] == "slow-drain" else env.fast_origin
    try:
        return _execute(env, sc)
    finally:
        env.origin = env.fast_origin


def _execute(env, sc):
    r = Result()
    ns = env.ns()
    path = "/" + ns
    body_len = sc["body_len"]
    if sc["origin"] == "slow-drain":
        body_len = max(body_len, sc.get("slow_len", 400000))
    body = httpref.keyed_stream(path, body_len)
    framing = sc["framing"]
    version = sc["version"] if framing == "length" else "1.1"
    expect = sc["expect"] if version == "1.1" else "none"
    nchunks = 0
    if framing == "length":
        enc = body
        fhdr = "Content-Length: %d\r\n" % len(body)
    else:
        enc, nchunks = chunk_encode(body, sc["chunks"], sc["chunk_ext"], sc["hex_style"], sc["trailers"])
        fhdr = "Transfer-Encoding: chunked\r\n"
    head = ("%s %s HTTP/%s\r\nHost: 127.0.0.1:%d\r\nX-Tag: %s\r\n%s%s%s\r\n" % (
        sc["method"], env.url(path), version, env.origin.port, ns, fhdr,
        "Expect: 100-continue\r\n" if expect != "none" else "",
        "Connection: keep-alive\r\n" if version == "1.0" else "")).encode()

    # ---- where the client stops
    ab = sc["abort"]
    total = len(enc)
    k = total
    if ab[0] == "permille":
        k = total * ab[1] // 1000
    elif ab[0] == "from_end":
        k = max(0, total - ab[1])
    elif ab[0] == "abs":
        k = min(ab[1], total)
    aborting = k < total
    if aborting:
        r.label("client-abort-" + sc["abort_how"])
        r.label("client-abort")

    # ---- origin behaviour
    mode = sc["origin"]

    def behaviour(arr):
        if expect == "origin-100":
            try:
                env.origin.conns[arr.conn_id].sendall(b"HTTP/1.1 100 Continue\r\n\r\n")
            except (KeyError, OSError):
                pass
        if mode == "stall":
            time.sleep(sc["stall_ms"] / 1000.0)
        beh = {"status": 200, "body_tag": path + "#resp", "body_len": sc["resp_len"], "headers": [["Cache-Control", "no-store"], ["X-Tag", ns]]}
        if mode == "slow-drain":
            beh["slow_read"] = {"bytes": 16384, "pause_ms": 6, "initial_stall_ms": 300}
        if mode in ("early", "early-close"):
            beh["respond_before_body"] = True
        if mode == "early-close":
            beh["close"] = True
        return beh

    env.origin.script(path, behaviour)
    r.label("framing-" + framing)
    r.label("origin-" + mode)
    if expect != "none":
        r.label("expect-" + expect)

    # split inside a chunk-size line: some client write ends strictly inside the first chunk header
    split_in_chunk_header = False
    if framing == "chunked" and sc["segments"]:
        first_line_end = enc.find(b"\r\n") + 2
        edge = 0
        for s_ in sc["segments"]:
            edge += s_
            if len(head) < edge < len(head) + first_line_end and expect == "none":
                split_in_chunk_header = True
            if expect != "none" and 0 < edge < first_line_end:
                split_in_chunk_header = True
    if split_in_chunk_header:
        r.label("split-in-chunk-header")
    if len(body) > 4096 or nchunks >= 2 or split_in_chunk_header or aborting:
        r.nontrivial = True

    # ---- client
    c = client.Conn(env.port, timeout=CLIENT_DEADLINE)
    final = None
    sent_all = False
    try:
        payload = enc[:k]
        if expect == "none":
            n = c.send(head + payload, sc["segments"], sc["pauses"])
            sent_all = (n == len(head) + len(payload)) and not aborting
        else:
            c.send(head)
            m1 = c.read_response(sc["method"].encode(), timeout=max(0.001, sc["expect_wait_ms"] / 1000.0) if expect == "silent" else 3.0, skip_interim=False)
            if m1 is not None and not m1.timed_out and m1.status == 100:
                r.label("client-got-100")
            elif m1 is not None and not m1.timed_out and m1.status is not None:
                final = m1
            n = c.send(payload, sc["segments"], sc["pauses"])
            sent_all = (n == len(payload)) and not aborting
        if aborting:
            if sc["abort_sync"]:
                _wait(lambda: env.origin.arrival_count(path) > 0, 2.0)
            if sc["abort_how"] == "fin":
                c.half_close()
                c.read_until_eof(timeout=CLIENT_DEADLINE)
            elif sc["abort_how"] == "rst":
                c.rst()
            else:
                c.close()
        elif final is None:
            final = c.read_response(sc["method"].encode(), timeout=CLIENT_DEADLINE)
    finally:
        c.close()

    if not aborting:
        if final is None or final.timed_out:
            r.inconclusive = "client timed out waiting for the response"
        elif final.status is not None:
            r.label("client-status-%d" % final.status)

    # ---- origin side
    _wait(lambda: env.origin.arrival_count(path) > 0, 0.3)
    arrs = env.origin.arrivals_for(path)
    if not arrs:
        r.label("no-arrival")
        env.health(r)
        return r
    if not _wait(lambda: all(a.body_done for a in env.origin.arrivals_for(path)), 12.0):
        r.inconclusive = r.inconclusive or "origin still waiting for the upstream message to end"
        env.health(r)
        return r
    arrs = env.origin.arrivals_for(path)
    if len(arrs) > 1:
        r.label("multiple-arrivals")
    complete = 0
    for a in arrs:
        m = a.msg
        for an in m.anomalies:
            if an in GRAMMAR_ANOMALIES or an.startswith("bad-body") or an.startswith("bad-message"):
                r.fail("upstream-framing-invalid:" + an.split(":")[0], "upstream head %r" % m.raw_head[:400])
        if m.target != path.encode() or m.method != sc["method"].encode():
            continue
        ncl, nte = len(m.get_all("content-length")), len(m.get_all("transfer-encoding"))
        if ncl + nte != 1:
            r.fail("upstream-framing-not-exactly-one-of-CL-TE", "CL fields %d, TE fields %d, head %r" % (ncl, nte, m.raw_head[:400]))
            continue
        r.label("upstream-" + str(m.framing))
        if body[:len(m.body)] != m.body:
            r.fail("upstream-body-not-a-prefix-of-client-body", "origin got %d body bytes, first difference at %d (client body %d bytes, %s)" % (
                len(m.body), _first_diff(m.body, body), len(body), framing))
            continue
        if m.complete:
            complete += 1
            if aborting:
                r.fail("upstream-complete-although-client-stopped-early", "client sent %d of %d encoded body bytes (%s); origin saw a complete %s message of %d bytes" % (
                    k, total, framing, m.framing, len(m.body)))
            elif m.body != body:
                r.fail("upstream-complete-but-short", "client body %d bytes, origin saw a complete %s message of %d bytes" % (len(body), m.framing, len(m.body)))
            elif not sent_all:
                r.fail("upstream-complete-although-client-write-failed", "client wrote fewer bytes than its message")
            else:
                r.label("upstream-complete-exact")
        else:
            r.label("upstream-incomplete")
            if sent_all and mode in ("read", "stall"):
                r.label("upstream-incomplete-although-client-complete")  # allowed by the statement, counted
    if complete > 1:
        r.fail("message-delivered-twice", "%d complete upstream copies" % complete)
    env.health(r)
    return r
